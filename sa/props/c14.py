"""C14 BIP39 mnemonics: NFKD sanitizers, PBKDF2 constants, checksum guard, unknown-word guard, word-list data."""
import ast
import os
import unicodedata

from ..core import Property, unparse, norm, REPO_ROOT, walk_no_nested
from ..sym import Interp, S, term, show, subterms, flatten_cat
from .. import intv, mut
from ..cfg import build_cfg
from ..dfa import guards_of

PROP = Property(
    'C14', 'BIP39: NFKD normalisation of sentence and passphrase, PBKDF2 parameters, checksum/unknown-word guards, word lists',
    'Static: the two PBKDF2 inputs of Mnemonic.to_seed must each derive from a value that passed normalize_string (NFKD); '
    'hash/iterations/salt prefix are the BIP39 constants; to_entropy must compare the trailing len/33 bits with '
    'checksum(ent) and raise, and to_seed(validate=True) must reach it; sanitize_mnemonic must raise on a word outside '
    'the detected list; checksum() must return the first ENT/32 bits of SHA-256; the nine word lists are read as data '
    '(2048 unique NFKD-normal words each). Equality sentence<->entropy through change_base is NOT decided.',
    ['hashlib.pbkdf2_hmac / sha256 and unicodedata.normalize are correct', 'change_base converts between bases exactly (not decided here)'])

SELF = ('var', 'self')


def _run(ctx, name, args, **kw):
    fn = ctx.repo.func('mnemonic:Mnemonic.' + name)
    it = Interp(ctx.repo, 'mnemonic', self_cls='mnemonic:Mnemonic', **kw)
    return fn, it.run_function(fn, args)


def _outside(t, leaf, wrapper_pred):
    """does ``leaf`` occur in t outside every subterm satisfying wrapper_pred?"""
    if wrapper_pred(t):
        return False
    if t == leaf:
        return True
    if isinstance(t, tuple):
        return any(_outside(x, leaf, wrapper_pred) for x in t)
    return False


def _is_norm(t):
    return isinstance(t, tuple) and t and t[0] == 'call' and t[1] == 'normalize_string'


def _pbkdf2_of(ctx, exits):
    """the one hashlib.pbkdf2_hmac(...) term the returned seed is made of (returned directly, or through a memo the method keeps)"""
    rets = [e for e in exits if e.kind == 'return']
    if not rets:
        ctx.undecided('to_seed has no return path')
    found = []
    for e in rets:
        calls = [t for t in subterms(('w', term(e.value))) if isinstance(t, tuple) and len(t) >= 5 and t[0] == 'mcall' and t[2] == 'pbkdf2_hmac']
        for store in e.heap.values() if hasattr(e, 'heap') and e.heap else ():
            try:
                calls += [t for t in subterms(('w', term(store))) if isinstance(t, tuple) and len(t) >= 5 and t[0] == 'mcall' and t[2] == 'pbkdf2_hmac']
            except Exception:
                pass
        found += [c for c in calls if c not in found]
    if len(found) != 1:
        ctx.undecided('to_seed: %d different hashlib.pbkdf2_hmac(...) terms reach the result, expected 1' % len(found))
    return found[0]


@PROP.obligation('C14.nfkd', canaries=[
    mut.replace_expr('mnemonic', 'Mnemonic.to_seed', 'normalize_string(password)', 'password', 'to_seed: passphrase not normalised again'),
    mut.replace_expr('mnemonic', 'Mnemonic.sanitize_mnemonic', 'normalize_string(words)', 'words', 'sanitize_mnemonic: sentence not normalised'),
    mut.const('encoding', 'normalize_string', 'NFKD', 'NFKC', 'normalize_string: NFKC instead of NFKD'),
    mut.replace_expr('mnemonic', 'Mnemonic.to_seed', "bytes(words, 'utf8')", "bytes(words, 'latin1')", 'to_seed: sentence encoded latin1'),
    mut.replace_stmt('mnemonic', 'Mnemonic.to_seed', 'words = self.sanitize_mnemonic(words)', 'raw = words\nwords = self.sanitize_mnemonic(words)\nif validate:\n    words = raw', 'to_seed: raw sentence used on the validate=True path'),
])
def nfkd(ctx):
    """Mnemonic.to_seed: PBKDF2 password = utf8(sanitize_mnemonic(words)), salt = b'mnemonic' + utf8(normalize_string(passphrase));
    sanitize_mnemonic returns only text derived from normalize_string(words); normalize_string is unicodedata NFKD."""
    q = 'mnemonic:Mnemonic.to_seed'
    for validate in (True, False):
        fn, exits = _run(ctx, 'to_seed', {'words': S(('var', 'words'), 'str'), 'password': S(('var', 'password'), 'str'), 'validate': validate})
        rv = _pbkdf2_of(ctx, exits)
        kw = dict(rv[4])
        names = ['hash_name', 'password', 'salt', 'iterations']
        for i, a in enumerate(rv[3]):
            kw.setdefault(names[i], a)
        ctx.saw('to_seed(validate=%s) -> pbkdf2_hmac(%s)' % (validate, ', '.join('%s=%s' % (k, show(v)[:70]) for k, v in sorted(kw.items()))))
        pw, salt = kw.get('password'), kw.get('salt')
        exp_pw = ('encode', ('mcall', SELF, 'sanitize_mnemonic', (('var', 'words'),), ()), 'utf8')
        ctx.require(pw == exp_pw or pw == ('encode', exp_pw[1], 'utf-8'), q, 'validate=%s: PBKDF2 password is %s, expected utf8(sanitize_mnemonic(words))' % (validate, show(pw)[:120]), fn,
                    'the mnemonic sentence must be NFKD-normalised before key stretching')
        parts = flatten_cat(salt)
        ok = len(parts) == 2 and parts[0] == b'mnemonic' and parts[1] in (('encode', ('call', 'normalize_string', (('var', 'password'),), ()), 'utf8'),
                                                                          ('encode', ('call', 'normalize_string', (('var', 'password'),), ()), 'utf-8'))
        ctx.require(ok, q, 'validate=%s: PBKDF2 salt is %s, expected b"mnemonic" + utf8(NFKD(passphrase))' % (validate, show(salt)[:140]), fn,
                    'BIP39: passphrase must be NFKD-normalised; otherwise NFC/NFKD spellings of one passphrase give different seeds')
    q = 'mnemonic:Mnemonic.sanitize_mnemonic'
    fn, exits = _run(ctx, 'sanitize_mnemonic', {'words': S(('var', 'words'), 'str')})
    for e in exits:
        if e.kind != 'return':
            continue
        rv = term(e.value)
        ctx.saw('sanitize_mnemonic -> %s' % show(rv)[:160])
        ctx.require(not _outside(rv, ('var', 'words'), _is_norm) and any(_is_norm(s) for s in subterms(rv)), q,
                    'returned sentence contains text that did not pass normalize_string', e.node)
    q = 'encoding:normalize_string'
    fn = ctx.repo.func(q)
    it = Interp(ctx.repo, 'encoding')
    exits = it.run_function(fn, {'string': S(('var', 'string'), 'str')})
    for e in exits:
        if e.kind != 'return':
            continue
        rv = term(e.value)
        ctx.saw('normalize_string -> %s' % show(rv)[:140])
        ok = isinstance(rv, tuple) and rv[0] == 'mcall' and rv[1] == ('global', 'unicodedata') and rv[2] == 'normalize' and rv[3] and rv[3][0] == 'NFKD'
        ctx.require(ok, q, 'returns %s, expected unicodedata.normalize("NFKD", text)' % show(rv)[:120], e.node)


@PROP.obligation('C14.kdf', canaries=[
    mut.const('mnemonic', 'Mnemonic.to_seed', 2048, 4096, 'to_seed: 4096 iterations'),
    mut.const('mnemonic', 'Mnemonic.to_seed', 'sha512', 'sha256', 'to_seed: sha256'),
    mut.const('mnemonic', 'Mnemonic.to_seed', b'mnemonic', b'Mnemonic', 'to_seed: salt prefix'),
])
def kdf(ctx):
    """PBKDF2 parameters are hash sha512, 2048 iterations, salt prefix b'mnemonic' (BIP39)."""
    q = 'mnemonic:Mnemonic.to_seed'
    fn, exits = _run(ctx, 'to_seed', {'words': S(('var', 'words'), 'str'), 'password': S(('var', 'password'), 'str'), 'validate': False})
    rv = _pbkdf2_of(ctx, exits)
    kw = dict(rv[4])
    for i, a in enumerate(rv[3]):
        kw.setdefault(['hash_name', 'password', 'salt', 'iterations', 'dklen'][i], a)
    ctx.saw('hash_name=%r iterations=%r dklen=%r' % (kw.get('hash_name'), kw.get('iterations'), kw.get('dklen')))
    ctx.require(kw.get('hash_name') == 'sha512', q, 'PBKDF2 hash is %r, BIP39 uses HMAC-SHA512' % (kw.get('hash_name'),), fn)
    ctx.require(kw.get('iterations') == 2048, q, 'PBKDF2 iteration count is %r, BIP39 uses 2048' % (kw.get('iterations'),), fn)
    ctx.require(kw.get('dklen') in (None, 64), q, 'derived key length is %r, BIP39 seed is 64 bytes' % (kw.get('dklen'),), fn)
    ctx.require(flatten_cat(kw.get('salt'))[:1] == [b'mnemonic'], q, 'salt does not start with b"mnemonic"', fn)


@PROP.obligation('C14.checksum', canaries=[
    mut.drop_stmt('mnemonic', 'Mnemonic.to_entropy', 'if checksum != self.checksum(ent)', 'to_entropy: checksum comparison removed'),
    mut.replace_stmt('mnemonic', 'Mnemonic.to_seed', 'if validate:', 'if False:\n    pass', 'to_seed: validation skipped'),
    mut.replace_expr('mnemonic', 'Mnemonic.to_entropy', 'binresult[-len(binresult) // 33:]', 'binresult[-len(binresult) // 32:]', 'to_entropy: checksum bits taken with /32'),
    mut.cmpop('mnemonic', 'Mnemonic.to_entropy', 'checksum != self.checksum(ent)', ast.Eq, 'to_entropy: comparison inverted'),
    mut.replace_stmt('mnemonic', 'Mnemonic.to_seed', 'if validate:', 'if validate and words not in self.__dict__.setdefault("_seen", set()):\n    self._seen.add(words)\n    self.to_entropy(words)', 'to_seed: validation skipped for sentences seen before'),
])
def checksum(ctx):
    """to_entropy(includes_checksum=True) raises unless the trailing len/33 bits equal checksum(entropy bits before them);
    to_seed(validate=True) calls to_entropy on the sanitized sentence."""
    q = 'mnemonic:Mnemonic.to_entropy'
    fn, exits = _run(ctx, 'to_entropy', {'words': S(('var', 'words'), 'str'), 'includes_checksum': True})
    rets = [e for e in exits if e.kind == 'return']
    if not rets:
        ctx.undecided('to_entropy never returns')

    def cs_tests(pc):
        out = []
        for t, pol in pc:
            if isinstance(t, tuple) and t[0] == 'cmp' and t[1] in ('!=', '==') and any(isinstance(x, tuple) and x[:3] == ('mcall', SELF, 'checksum') for x in (t[2], t[3])):
                out.append((t, pol))
        return out
    for e in rets:
        tests = cs_tests(e.pc)
        ctx.saw('to_entropy return guarded by %d checksum comparison(s)' % len(tests))
        if not tests:
            ctx.violate(q, 'entropy is returned without comparing the embedded checksum bits with checksum(entropy)', e.node, 'a sentence with a wrong checksum is accepted')
            continue
        for t, pol in tests:
            holds = (t[1] == '!=' and pol is False) or (t[1] == '==' and pol is True)
            ctx.require(holds, q, 'entropy is returned on the branch where the checksum does NOT match', e.node)
            call = t[3] if isinstance(t[3], tuple) and t[3][:3] == ('mcall', SELF, 'checksum') else t[2]
            emb = t[2] if call is t[3] else t[3]
            # embedded checksum = last len//33 bits; checksum argument = entropy rebuilt from the bits before
            ok_emb = isinstance(emb, tuple) and emb[0] == 'slice' and emb[3] is None and isinstance(emb[2], tuple)
            if ok_emb:
                bits = emb[1]
                L = ('len', bits)
                try:
                    vals = [intv.value_eval(emb[2], {L: n}) for n in (132, 165, 198, 231, 264)]
                except Exception:
                    vals = None
                ctx.saw('embedded checksum = bits[%s:] -> start offsets for 12..24 words: %s' % (show(emb[2]), vals))
                ctx.require(vals == [-4, -5, -6, -7, -8], q, 'checksum bits are taken from offset %s (for 132..264 bits: %s), BIP39 uses the last len/33 bits' % (show(emb[2]), vals), e.node)
                arg = call[3][0] if call[3] else None
                ent_bits = [s for s in subterms(arg) if isinstance(s, tuple) and s[0] == 'slice' and s[1] == bits]
                if not ent_bits:
                    ctx.undecided('to_entropy: entropy passed to checksum() is not built from the leading bits')
                try:
                    vals2 = [intv.value_eval(ent_bits[0][3], {L: n}) for n in (132, 165, 198, 231, 264)]
                except Exception:
                    vals2 = None
                ctx.require(ent_bits[0][2] is None and vals2 == [-4, -5, -6, -7, -8], q,
                            'entropy bits are bits[%s:%s] (ends for 132..264 bits: %s), expected everything before the last len/33 bits' % (show(ent_bits[0][2]), show(ent_bits[0][3]), vals2), e.node)
            else:
                ctx.undecided('to_entropy: embedded checksum expression not recognised: %s' % show(emb)[:100])
    ctx.require(any(e.kind == 'raise' and any((t[1] == '!=' and pol) or (t[1] == '==' and not pol) for t, pol in cs_tests(e.pc)) for e in exits), q,
                'no raise on checksum mismatch', fn)
    # to_seed(validate=True) reaches to_entropy
    calls = []
    def rec(interp, base, args, kwargs, st, node):
        calls.append((term(base), [term(a) for a in args]))
        return NotImplemented
    q = 'mnemonic:Mnemonic.to_seed'
    fn, exits = _run(ctx, 'to_seed', {'words': S(('var', 'words'), 'str'), 'password': S(('var', 'password'), 'str')}, hooks={'.to_entropy': rec})
    ctx.saw('to_seed (default validate) calls to_entropy: %s' % [show(a[1][0])[:60] for a in calls])
    san = ('mcall', SELF, 'sanitize_mnemonic', (('var', 'words'),), ())
    ctx.require(any(b == SELF and a and a[0] in (san, ('var', 'words')) for b, a in calls), q,
                'to_seed with default validate=True does not call self.to_entropy(words): checksum is never verified', fn)
    # ... on EVERY path on which `validate` is true (must-pass-through on the control-flow graph): nothing but the argument may switch
    # the validation off - not a remembered "already validated" set, not the state of the object
    from ..cfg import build_cfg, node_asts
    g = build_cfg(fn)
    vcalls = set(n.id for n in g.nodes if any(isinstance(c, ast.Call) and norm(c.func) == 'self.to_entropy' for frag in node_asts(n) for c in ast.walk(frag)))
    off = set()
    for n in g.nodes:
        if n.kind == 'test' and isinstance(n.ast, ast.Name) and n.ast.id == 'validate':
            off |= set(g.false_edge(n.id))
        if n.kind == 'test' and isinstance(n.ast, ast.UnaryOp) and isinstance(n.ast.op, ast.Not) and isinstance(n.ast.operand, ast.Name) and n.ast.operand.id == 'validate':
            off |= set(g.true_edge(n.id))
    p = g.path_avoiding([g.exit_return], vcalls, blocked_edges=off, skip_exc=True)
    ctx.saw('to_seed: every path with validate true passes through self.to_entropy: %s' % (p is None))
    if p is not None and vcalls:
        ctx.violate(q, 'with validate=True there is a path to the seed that does not validate the sentence (%s): a test other than the validate argument skips it' % g.describe_path(p)[:100], fn,
                    'a sentence with a wrong checksum is turned into a seed (e.g. on its second submission, once it is remembered as validated)')


@PROP.obligation('C14.unknown-word', canaries=[
    mut.drop_stmt('mnemonic', 'Mnemonic.sanitize_mnemonic', 'if word not in wordlist', 'sanitize_mnemonic: unknown-word check removed'),
])
def unknown_word(ctx):
    """sanitize_mnemonic raises for a word that is not in the word list of the detected language."""
    q = 'mnemonic:Mnemonic.sanitize_mnemonic'
    fn, exits = _run(ctx, 'sanitize_mnemonic', {'words': S(('var', 'words'), 'str')})
    ok = False
    for e in exits:
        if e.kind == 'raise':
            for t, pol in e.pc:
                if isinstance(t, tuple) and t[0] == 'cmp' and ((t[1] == 'not in' and pol) or (t[1] == 'in' and not pol)) and isinstance(t[2], tuple) and t[2][0] == 'elem':
                    ctx.saw('raise when %s' % show(t)[:160])
                    # the list must be read from the detected language's file
                    if any(isinstance(s, tuple) and s[0] == 'mcall' and s[2] == 'detect_language' for s in subterms(t[3])):
                        ok = True
    ctx.require(ok, q, 'no raise guarded by "word not in <word list of the detected language>"', fn, 'sentences containing words outside the list are accepted')
    ctx.saw('sanitize_mnemonic exits: %s' % [e.kind for e in exits])


@PROP.obligation('C14.cs-bits', canaries=[
    mut.replace_expr('mnemonic', 'Mnemonic.checksum', 'len(data) * 8 // 32', 'len(data) * 8 // 33', 'checksum: ENT/33 bits'),
    mut.replace_expr('mnemonic', 'Mnemonic.checksum', 'hashlib.sha256(data)', 'hashlib.sha512(data)', 'checksum: sha512'),
])
def cs_bits(ctx):
    """Mnemonic.checksum returns the first ENT/32 bits of SHA-256(entropy)."""
    q = 'mnemonic:Mnemonic.checksum'
    fn, exits = _run(ctx, 'checksum', {'data': S(('var', 'data'), 'bytes')})
    rets = [e for e in exits if e.kind == 'return']
    if len(rets) != 1:
        ctx.undecided('checksum return paths')
    rv = term(rets[0].value)
    ctx.saw('checksum -> %s' % show(rv)[:160])
    if not (isinstance(rv, tuple) and rv[0] == 'slice' and rv[2] is None and rv[4] is None):
        ctx.undecided('checksum result is not a prefix slice: %s' % show(rv)[:100])
    src, end = rv[1], rv[3]
    data_terms = [s for s in subterms(end) if isinstance(s, tuple) and s[0] == 'len']
    if len(set(data_terms)) != 1:
        ctx.undecided('checksum length expression')
    L = data_terms[0]
    vals = [intv.value_eval(end, {L: n}) for n in (16, 20, 24, 28, 32)]
    ctx.require(vals == [4, 5, 6, 7, 8], q, 'number of checksum bits for 16..32 bytes of entropy is %s, BIP39: ENT/32 = [4, 5, 6, 7, 8]' % vals, fn)
    ok = isinstance(src, tuple) and src[0] == 'call' and src[1] == 'change_base' and src[2][1:] == (256, 2, 256) and \
        isinstance(src[2][0], tuple) and src[2][0][0] == 'mcall' and src[2][0][2] == 'digest' and src[2][0][1][:2] == ('call', 'hashlib.sha256')
    ctx.require(ok, q, 'checksum bits come from %s, expected the 256 bits of SHA-256(entropy)' % show(src)[:140], fn)


# sha256 over the '\n'-joined word sequence of the official BIP39 lists (bitcoin/bips bip-0039/*.txt); english.txt as a file has the
# well-known digest 2f5eed53a4727b4bf8880d8f3f199efc90e58503646d9ff8eff3a2ed3b24dbda
OFFICIAL = {
    'chinese_simplified.txt': '106cc8387ac3fc7d44ca1072e30a0b27ed017b1d377501bb909c2833ef60c186',
    'chinese_traditional.txt': '407312f9014543242bd157c255125a753ac60128fc15883a33b8685a9328b0cc',
    'dutch.txt': '8bf228b0c7359a2096530da5f9acf3f9099ce568a5800427511e6b4ee8f306b9',
    'english.txt': '187db04a869dd9bc7be80d21a86497d692c0db6abd3aa8cb6be5d618ff757fae',
    'french.txt': 'b8caec12319d0ffb127c84e42c8866c86a54ac9951fe2cfbf902d35552c65e4f',
    'italian.txt': 'ffefe450a4be8015d9c291d6ae305ab7e814e822113fa874268c3074af42b27e',
    'japanese.txt': 'a3c2aa5c689341519e8a579e28d2956910313e372b04cf0f31baef40dc44d69c',
    'portuguese.txt': '882265ece9ce1178b9fe47463d571dfa399c6fc7cb17895eb2767f1930c945eb',
    'spanish.txt': '2f06d28020d49115a2e502fb6042aaa593e90773edb947685482d05ee2af6a03',
}


@PROP.obligation('C14.bits-keep-zeros', canaries=[
    mut.replace_stmt('encoding', 'change_base', 'if base_from == 256 and base_to == 58:', "if base_from == 256 and base_to == 2:\n    return bin(int.from_bytes(inp, 'big'))[2:].zfill(min_length)\nif base_from == 256 and base_to == 58:\n    return base58encode(inp)", 'bit string of an entropy loses its leading zero bytes'),
])
def bits_keep_zeros(ctx):
    """Mnemonic.to_entropy derives the checksum width from the LENGTH of change_base(entropy, 256, 2, len * 4) - it relies on the generic
    digit loop putting 8 zero bits in front for every leading zero byte. Every shortcut branch of change_base between two non-decimal
    bases therefore must not route the value through an integer (which forgets leading zeros) unless it rebuilds the length from the input."""
    from .common_changebase import fast_paths as run
    run(ctx, 'a valid sentence whose entropy starts with 33 or more zero bits (the all-zero BIP39 vectors) is rejected with "Invalid checksum": no round trip, no seed')
    q = 'mnemonic:Mnemonic.to_entropy'
    fn = ctx.repo.func(q)
    widths = [n for n in ast.walk(fn) if isinstance(n, ast.Call) and norm(n.func) == 'len' and n.args and norm(n.args[0]) == 'binresult']
    ctx.saw('to_entropy derives the checksum width from len(binresult): %s' % bool(widths))


@PROP.obligation('C14.lists')
def lists(ctx):
    """Nine word lists, each 2048 unique words, each word equal to its NFKD form (so a normalised sentence can be looked up),
    no two lists identical, and each word sequence equal to the official BIP39 list (pinned digests of the sequences: the lists are
    normative constants; dutch is not an official BIP39 language and is pinned to the bundled sequence)."""
    d = os.path.join(ctx.repo.root, 'bitcoinlib', 'wordlist')
    if not os.path.isdir(d):
        ctx.undecided('word list directory missing')
    files = sorted(f for f in os.listdir(d) if f.endswith('.txt'))
    ctx.floor(len(files), 9, 'word lists')
    seen = {}
    for f in files:
        with open(os.path.join(d, f), encoding='utf-8') as fh:
            words = [w.strip() for w in fh.readlines()]
        ctx.saw('%s: %d words, %d unique' % (f, len(words), len(set(words))))
        q = 'bitcoinlib/wordlist/' + f
        ctx.require(len(words) == 2048, q, '%d entries, BIP39 lists have 2048' % len(words))
        ctx.require(len(set(words)) == len(words), q, 'duplicate words')
        bad = [w for w in words if unicodedata.normalize('NFKD', w) != w]
        ctx.require(not bad, q, '%d words are not in NFKD form (first: %r): a normalised sentence cannot be found in the list' % (len(bad), bad[:1]))
        ctx.require(all(w and ' ' not in w for w in words), q, 'empty word or word containing a space')
        key = tuple(words)
        ctx.require(key not in seen, q, 'identical to %s' % seen.get(key))
        seen[key] = f
        # the BIP39 lists are normative and frozen: the word SEQUENCE (not the file bytes: line ends / trailing blanks may change) is pinned
        import hashlib
        dg = hashlib.sha256('\n'.join(w for w in words if w).encode('utf-8')).hexdigest()
        if f in OFFICIAL:
            if dg != OFFICIAL[f]:
                ref = None
                ctx.violate(q, 'the word sequence differs from the official BIP39 list (digest %s..., official %s...)' % (dg[:16], OFFICIAL[f][:16]), None,
                            'generated sentences are not the BIP39 sentences of their entropy; sentences of other wallets are rejected or map to another seed')
        else:
            ctx.unsure('%s: no official digest known for this list' % q)


@PROP.obligation('C14.entropy-domain')
def entropy_domain(ctx):
    """to_mnemonic (default arguments) accepts every entropy value: no raise that depends on the integer value of the data."""
    q = 'mnemonic:Mnemonic.to_mnemonic'
    fn, exits = _run(ctx, 'to_mnemonic', {'data': S(('var', 'data'), 'bytes')})
    for e in exits:
        if e.kind != 'raise':
            continue
        for t, pol in e.pc:
            if any(isinstance(s, tuple) and s[0] == 'bytes2int' for s in subterms(('w', t))):
                from ..sym import rewrite as _rw
                t = _rw(t, lambda x: ('var', 'entropy') if isinstance(x, tuple) and x and x[0] == 'bytes2int' else None)      # how the bytes are obtained is not part of the finding
                ctx.violate(q, 'default call raises when %s%s' % ('' if pol else 'not ', show(t)[:200].replace(str(0xFFFFFFFFFFFFFFFFFFFFFFFFFFFFFFFEBAAEDCE6AF48A03BBFD25E8CD0364141), 'secp256k1_n')), e.node,
                            'BIP39 defines a sentence for every entropy, including all-zero and all-ones')
    ctx.saw('to_mnemonic exits: %s' % [e.kind for e in exits])
    # the reverse direction: to_entropy refuses a sentence only for an unknown word or a checksum mismatch, never for the VALUE it decodes to
    q = 'mnemonic:Mnemonic.to_entropy'
    fn, exits = _run(ctx, 'to_entropy', {'words': S(('var', 'words'), 'str'), 'includes_checksum': True})
    nraise = 0
    for e in exits:
        if e.kind != 'raise' or not e.pc:
            continue
        nraise += 1
        t, pol = e.pc[-1]
        sub = list(subterms(('w', t)))
        is_checksum = any(isinstance(s_, tuple) and s_[:3] == ('mcall', SELF, 'checksum') for s_ in sub)
        by_value = any(isinstance(s_, tuple) and s_[0] == 'bytes2int' for s_ in sub) or any(isinstance(s_, int) and not isinstance(s_, bool) and s_ > 2 ** 64 for s_ in sub)
        if by_value and not is_checksum:
            ctx.violate(q, 'a sentence is refused because of the value it decodes to (%s%s)' % ('' if pol else 'not ', show(t)[:160].replace(str(0xFFFFFFFFFFFFFFFFFFFFFFFFFFFFFFFEBAAEDCE6AF48A03BBFD25E8CD0364141), 'secp256k1_n')), e.node,
                        'BIP39 entropy is not a private key: the all-zero ("abandon ... about") and all-ones ("zoo ... vote") sentences are valid and must round-trip and give their seed')
    ctx.saw('to_entropy: %d raising paths, none decided by the decoded value' % nraise)


@PROP.obligation('C14.word-index', canaries=[
    mut.replace_expr('mnemonic', 'Mnemonic.to_entropy', 'self._wordlist.index(word)', 'bisect.bisect_left(self._wordlist, word)', 'to_entropy: binary search in lists that are not sorted'),
    mut.replace_expr('mnemonic', 'Mnemonic.to_mnemonic', 'self._wordlist[i]', 'self._wordlist[i - 1]', 'to_mnemonic: off-by-one word index'),
    mut.replace_expr('mnemonic', 'Mnemonic.to_entropy', 'self._wordlist.index(word)', 'Mnemonic(self.detect_language(words)).wordlist().index(word)', 'to_entropy: index in the list of the detected language'),
])
def word_index(ctx):
    """The word <-> index mapping is the position in the instance word list in both directions: to_entropy uses
    self._wordlist.index(word) (an order-dependent search such as bisect is only correct on code-point-sorted lists, which
    most bundled lists are not), to_mnemonic uses self._wordlist[i]."""
    wl = ('attr', SELF, '_wordlist')
    q = 'mnemonic:Mnemonic.to_entropy'
    fn, exits = _run(ctx, 'to_entropy', {'words': S(('var', 'words'), 'str'), 'includes_checksum': True})
    rets = [e for e in exits if e.kind == 'return']
    look = []
    for e in rets:
        for s_ in subterms(('w', term(e.value))):
            # the index list is the first argument of change_base(<indices>, 2048, 256, ...)
            if isinstance(s_, tuple) and s_[0] == 'call' and s_[1] == 'change_base' and len(s_[2]) >= 3 and s_[2][1] == 2048:
                a0 = s_[2][0]
                if isinstance(a0, tuple) and a0[0] == 'list' and len(a0) == 2 and isinstance(a0[1], tuple) and a0[1][0] == 'repeat' and \
                        isinstance(a0[1][3], tuple) and a0[1][3][0] == 'list' and len(a0[1][3]) == 2:
                    look.append(a0[1][3][1])
                elif isinstance(a0, tuple) and a0[0] == 'after-loop' and isinstance(a0[4], tuple) and a0[4][0] == 'list' and len(a0[4]) == 2:
                    look.append(a0[4][1])
                elif isinstance(a0, tuple) and a0[0] == 'repeat':
                    look.append(a0[3])
                else:
                    ctx.undecided('to_entropy: index list has an unrecognised shape: %s' % show(a0)[:100])
    if not look:
        ctx.undecided('to_entropy: the index list built from the words was not found')
    for l in set(look):
        ctx.saw('to_entropy index of a word: %s' % show(l)[:120])
        ok = isinstance(l, tuple) and l[:3] == ('mcall', wl, 'index') and isinstance(l[3][0], tuple) and l[3][0][0] == 'elem'
        if ok:
            continue
        order_dep = [x for x in subterms(('w', l)) if isinstance(x, tuple) and x[0] in ('call', 'mcall') and any('bisect' in str(y) or 'searchsorted' in str(y) for y in x[:3])]
        if order_dep:
            d = os.path.join(ctx.repo.root, 'bitcoinlib', 'wordlist')
            unsorted_lists = []
            for f in sorted(os.listdir(d)):
                if f.endswith('.txt'):
                    words = [w.strip() for w in open(os.path.join(d, f), encoding='utf-8')]
                    if words != sorted(words):
                        unsorted_lists.append(f)
            if unsorted_lists:
                ctx.violate(q, 'word index found by an order-dependent search (%s) but %d word lists are not sorted: %s' % (show(order_dep[0])[:60], len(unsorted_lists), ', '.join(unsorted_lists)), fn,
                            'valid sentences in those languages are rejected or mapped to another entropy')
            continue
        if isinstance(l, tuple) and l[0] == 'mcall' and l[2] == 'index' and l[1] != wl and any(x == ('var', 'words') for x in subterms(('w', l[1]))):
            ctx.violate(q, 'the index of a word is looked up in a list chosen from the sentence itself (%s), not in self._wordlist, the list of this object that to_mnemonic selects the words from' % show(l[1])[:120], fn,
                        'a sentence whose words also occur in another bundled list is decoded with the indexes of that list: to_entropy(to_mnemonic(e)) != e')
            continue
        ctx.undecided('to_entropy: word lookup not recognised: %s' % show(l)[:100])
    q = 'mnemonic:Mnemonic.to_mnemonic'
    fn, exits = _run(ctx, 'to_mnemonic', {'data': S(('var', 'data'), 'bytes')})
    reps = []
    for e in exits:
        if e.kind == 'return':
            for s_ in subterms(('w', term(e.value))):
                if isinstance(s_, tuple) and s_[0] == 'repeat' and any(x == wl for x in subterms(s_[3])):
                    reps.append(s_)
    if not reps:
        ctx.undecided('to_mnemonic: word selection not found')
    for r_ in set(reps):
        ctx.saw('to_mnemonic word selection: %s' % show(r_[3])[:100])
        ctx.require(r_[3] == ('index', wl, ('elem', r_[1], r_[2])), q, 'word chosen for index i is %s, expected self._wordlist[i]' % show(r_[3])[:100], fn)


@PROP.obligation('C14.entropy-bytes', canaries=[
    mut.replace_stmt('mnemonic', 'Mnemonic.to_mnemonic', 'if not isinstance(data, bytes)', 'data = to_bytes(data)', 'raw entropy bytes passed through the hex-decoding helper'),
])
def entropy_bytes(ctx):
    """Mnemonic.to_mnemonic and Mnemonic.checksum: entropy given as raw bytes is used as it is. encoding.to_bytes() first tries to
    hex-decode its argument - also a bytes argument - so it may only be applied to non-bytes input: 16 entropy bytes that happen to be
    ASCII hex digits would otherwise become 8 other bytes and a 6-word sentence."""
    for q in ('mnemonic:Mnemonic.to_mnemonic', 'mnemonic:Mnemonic.checksum'):
        fn = ctx.repo.func(q)
        g = build_cfg(fn)
        calls = [n for n in g.nodes if n.ast is not None and n.kind == 'stmt' and isinstance(n.ast, ast.Assign) and norm(n.ast.targets[0]) == 'data' and norm(n.ast.value) == 'to_bytes(data)']
        if not calls:
            ctx.saw('%s: entropy is not passed through to_bytes' % q)
            continue
        for c in calls:
            gs = [(norm(g[t].ast), pol) for t, pol in guards_of(g, c.id)]
            ok = ('isinstance(data, bytes)', 'F') in gs or ('isinstance(data, str)', 'T') in gs
            ctx.saw('%s: data = to_bytes(data) under %s' % (q, gs))
            ctx.require(ok, q, 'raw entropy bytes are passed through to_bytes(), which hex-decodes bytes that look like ASCII hex', c.ast,
                        "to_mnemonic(b'0123456789abcdef') is the 6-word sentence of the 8 bytes 01 23 45 67 89 ab cd ef")


@PROP.obligation('C14.defaults')
def api_defaults(ctx):
    """Defaults of the parameters that decide this property for callers who do not pass them: checksums are added and verified by default."""
    from .common_defaults import defaults as run
    n = run(ctx, [('mnemonic:Mnemonic.to_mnemonic', 'add_checksum', 'True'), ('mnemonic:Mnemonic.generate', 'add_checksum', 'True'), ('mnemonic:Mnemonic.to_entropy', 'includes_checksum', 'True'), ('mnemonic:Mnemonic.to_seed', 'validate', 'True')], 'sentences are produced without / accepted without a valid checksum by default')
    ctx.floor(n, 3, 'parameter defaults')


@PROP.obligation('C14.language-all-words', canaries=[
    mut.replace_stmt('mnemonic', 'Mnemonic.detect_language', 'wlcount = {}', 'words = words[:4]\nwlcount = {}', 'language detected from the first four words only'),
])
def language_all_words(ctx):
    """Mnemonic.detect_language counts, per word list, ALL words of the sentence: the words that are counted reach the counting loop from
    the normalised sentence through split only - no slice, sample or early exit. The official lists overlap (English/French share 100
    words, the two Chinese lists 1275 characters), so a sentence whose first words are shared would otherwise be checked against the
    wrong list and a genuine BIP39 sentence rejected."""
    from ..dfa import ReachingDefs
    q = 'mnemonic:Mnemonic.detect_language'
    fn = ctx.repo.func(q)
    rd = ReachingDefs(fn)
    loops = [n for n in ast.walk(fn) if isinstance(n, ast.For) and any(isinstance(x, ast.AugAssign) and 'wlcount' in norm(x.target) for x in ast.walk(n)) and not any(isinstance(x, ast.For) and x is not n for x in ast.walk(n))]
    if len(loops) != 1:
        ctx.undecided('detect_language: counting loop not found')
    lp = loops[0]
    if not isinstance(lp.iter, ast.Name):
        ctx.unsure('%s: counting loop iterates over `%s`' % (q, norm(lp.iter)))
        return
    nid = rd.node_of_ast(lp.iter)
    if nid is None:
        ctx.undecided('detect_language: counting loop has no CFG node')
    defs = rd.reaching(nid, lp.iter.id)
    srcs = [norm(d.value) if d.value is not None else d.kind for d in defs]
    ctx.saw('counted words reach the loop from %s' % srcs)
    for d in defs:
        if d.value is None:
            continue
        bad = [x for x in ast.walk(d.value) if isinstance(x, ast.Subscript) and isinstance(x.slice, ast.Slice)] + \
              [x for x in ast.walk(d.value) if isinstance(x, ast.Call) and norm(x.func).split('.')[-1] in ('sample', 'choice', 'choices', 'islice')]
        if bad:
            ctx.violate(q, 'only part of the sentence is counted: `%s = %s`' % (lp.iter.id, norm(d.value)), d.ast, 'a valid sentence whose first words also occur in another list is rejected with Unrecognised word')
    ctx.require(not any(isinstance(x, (ast.Break, ast.Return)) for x in ast.walk(lp)), q, 'the counting loop can stop before the last word', lp)


@PROP.obligation('C14.word-separator', canaries=[
    mut.replace_expr('mnemonic', 'Mnemonic.sanitize_mnemonic', "words.split(' ')", "words.split('\\u3000' if language == 'japanese' else ' ')", 'Japanese sentences split at the ideographic space after NFKD removed it'),
])
def word_separator(ctx):
    """Every place of mnemonic.py that cuts a sentence into words does so at the plain space (split(' ') or split()): the sentence has
    been NFKD-normalised before (normalize_string), which turns the ideographic space U+3000 of Japanese sentences - and every other
    compatibility space - into U+0020, so any other separator finds nothing to split at and the whole sentence becomes one unknown word."""
    m = ctx.repo.mod('mnemonic')
    n = 0
    for q, f in sorted(m.functions.items()):
        for c in ast.walk(f):
            if isinstance(c, ast.Call) and isinstance(c.func, ast.Attribute) and c.func.attr == 'split' and isinstance(c.func.value, ast.Name) and c.func.value.id in ('words', 'mnemonic', 'sentence'):
                n += 1
                ok = (not c.args and not c.keywords) or (len(c.args) == 1 and isinstance(c.args[0], ast.Constant) and c.args[0].value == ' ')
                ctx.saw('mnemonic:%s: %s' % (q, norm(c)))
                if not ok:
                    ctx.violate('mnemonic:' + q, 'the sentence is cut into words by `%s`' % norm(c)[:90], c,
                                'after NFKD normalisation the ideographic space is a plain space: every Japanese sentence is rejected with "Unrecognised word" (to_entropy, to_seed, sanitize_mnemonic)')
    ctx.floor(n, 3, 'sentence splits')


@PROP.obligation('C14.wordlist-fixed', canaries=[
    mut.replace_stmt('mnemonic', 'Mnemonic.sanitize_mnemonic', "return ' '.join(words)", "self._wordlist = wordlist\nreturn ' '.join(words)", 'a sentence check re-languages the object'),
])
def wordlist_fixed(ctx):
    """A Mnemonic object generates sentences from the word list it was constructed for. Whatever to_mnemonic / word / wordlist /
    generate read from the object is written by the constructor only: no parsing or validating method (sanitize_mnemonic, to_entropy,
    to_seed, detect_language ...) assigns, item-stores or mutates that state."""
    from .common_effect import constructor_only_state as run
    n = run(ctx, 'mnemonic', 'Mnemonic', ['to_mnemonic', 'word', 'wordlist', 'generate'],
            'after the object has looked at a sentence in another language, to_mnemonic()/generate() return words of that language: not the BIP39 sentence of the list the object stands for')
    ctx.floor(n, 1, 'attributes read by the generating methods')


@PROP.obligation('C14.no-shared-tables')
def no_shared_tables(ctx):
    """Every Mnemonic object works with the word list of ITS language. No method of the class fills or changes a container that is
    defined in the class body (one dictionary for all objects of the process) through self: a word index built lazily for the first
    language that decodes would be used by the objects of every other language."""
    from .common_effect import class_shared_state as run
    run(ctx, 'mnemonic', 'Mnemonic', 'after an English sentence was decoded, Mnemonic("japanese").to_entropy(<valid sentence>) raises "not in list", and a French sentence made of words shared with English decodes to the English entropy')


@PROP.obligation('C14.cache-keys')
def cache_keys(ctx):
    """The seed is a function of sentence AND passphrase (several passphrases on one sentence are the BIP39 "hidden wallets"). Every
    container a method of Mnemonic both looks up and stores into (none exists on the reference tree; a fixture self-test keeps the
    detector honest) is looked up with a key that carries every parameter the cached value depends on."""
    from .common_cache import cache_keys as run
    run(ctx, [('mnemonic', lambda q: q.startswith('Mnemonic.'))], 'Mnemonic methods')


@PROP.obligation('C14.list-form', canaries=[
    mut.replace_expr('mnemonic', 'Mnemonic.__init__', 'w.strip()', "unicodedata.normalize('NFC', w.strip())", 'the word list is composed (NFC) on load'),
    mut.replace_expr('mnemonic', 'Mnemonic.sanitize_mnemonic', '[w.strip() for w in f.readlines()]', "f.read().split('\\n')", 'the list a sentence is checked against keeps its line terminators'),
])
def list_form(ctx):
    """Words are looked up (to_entropy: self._wordlist.index(word); sanitize_mnemonic / detect_language: `word in wordlist`) after the
    sentence went through normalize_string (NFKD). The bundled spanish / french / japanese files are stored decomposed and dutch.txt has
    CRLF line ends, so a look-up works only while the list is what the file says line by line: at EVERY place mnemonic.py loads a word
    list, each element is the stripped line (w.strip() over readlines(), or splitlines()) or its NFKD form - any other normal form makes
    accented words "not in list", and elements cut at '\n' only keep the '\r' of the Dutch list, so no Dutch word is recognised."""
    mod = ctx.repo.mod('mnemonic')
    # which bundled lists would keep something when lines are cut at '\n' only (static data of the package, read as bytes)
    import os
    wl_dir = os.path.join(ctx.repo.root, 'bitcoinlib', 'wordlist')
    needs_strip = sorted(f for f in os.listdir(wl_dir) if f.endswith('.txt') and b'\r' in open(os.path.join(wl_dir, f), 'rb').read()) if os.path.isdir(wl_dir) else []
    ctx.saw('bundled word lists with CRLF line ends: %s' % needs_strip)
    n = 0
    for name, fn in sorted(mod.functions.items()):
        q = 'mnemonic:' + name
        if not any(isinstance(c, ast.Constant) and c.value == 'wordlist' for c in ast.walk(fn)):
            continue                # only functions that open a file of the wordlist directory
        for a in walk_no_nested(fn):
            if not isinstance(a, ast.Assign):
                continue
            v = a.value
            # a load is recognised by what it reads (lines / content of a file), not by the name it is stored under
            if not any(isinstance(c, ast.Call) and isinstance(c.func, ast.Attribute) and c.func.attr in ('readlines', 'read', 'read_text', 'read_bytes', 'splitlines') for c in ast.walk(v)):
                continue
            n += 1
            forms, stripped, filt = [], False, []
            if isinstance(v, ast.ListComp) and len(v.generators) == 1 and isinstance(v.generators[0].target, ast.Name):
                var = v.generators[0].target.id
                filt = v.generators[0].ifs
                e = v.elt
                while True:
                    if isinstance(e, ast.Name) and e.id == var:
                        break
                    if isinstance(e, ast.Call) and isinstance(e.func, ast.Attribute) and e.func.attr in ('strip', 'rstrip') and not e.args:
                        stripped = True
                        e = e.func.value
                        continue
                    if isinstance(e, ast.Call) and norm(e.func) == 'normalize_string' and len(e.args) == 1:
                        forms.append('NFKD')
                        e = e.args[0]
                        continue
                    if isinstance(e, ast.Call) and norm(e.func) == 'unicodedata.normalize' and len(e.args) == 2 and isinstance(e.args[0], ast.Constant):
                        forms.append(e.args[0].value)
                        e = e.args[1]
                        continue
                    forms.append('?' + norm(e)[:30])
                    break
            elif isinstance(v, ast.Call) and isinstance(v.func, ast.Attribute) and v.func.attr == 'splitlines':
                stripped = True
            else:
                forms.append('?' + norm(v)[:40])
            ctx.saw('%s: %s = %s -> line ends removed: %s; other transformations: %s' % (name, norm(a.targets[0]), norm(v)[:60], stripped, forms or 'none'))
            bad = [f for f in forms if f != 'NFKD' and not str(f).startswith('?')]
            ctx.require(not bad, q, 'the words of the list are stored as `%s` (%s): not the form normalize_string gives the words that are looked up' % (norm(v)[:60], ', '.join(map(str, bad))), a,
                        "Mnemonic('spanish').to_entropy(<valid sentence with an accented word>) raises \"'envío' is not in list\": the official Japanese BIP39 vectors are rejected")
            unknown = [f for f in forms if str(f).startswith('?')]
            if unknown or not stripped:
                if needs_strip:
                    ctx.violate(q, 'the word list is loaded as `%s`, which does not strip the line ends: every entry of %s keeps its carriage return' % (norm(v)[:70], ', '.join(needs_strip)), a,
                                "no word of a valid Dutch sentence is found: sanitize_mnemonic / to_entropy / to_seed raise 'Unrecognised word' for it")
                else:
                    ctx.unsure('%s: word list loaded as `%s`' % (q, norm(v)[:60]))
            ctx.require(not filt, q, 'lines of the word-list file are filtered (`%s`): word numbers shift' % (norm(filt[0])[:50] if filt else ''), a)
    ctx.floor(n, 3, 'word-list loads')
