"""Shared obligation: queries of wallets.py are scoped by the function's own scope variables.

A Wallet method that binds `network` / `account_id` / `witness_type` (parameter, normalised through _get_account_defaults, or the
target of `for network in networks`) is working on THAT network / account: every query predicate on the column of the same meaning
(network_name, account_id, witness_type) must compare the column with that variable - not with the wallet default
(self.network.name, self.default_account_id, self.witness_type). On the reference tree this holds for every one of the instances
counted below; the rule is exact (no majority vote): an instance that compares with something else is reported."""
import ast

from ..core import norm
from ..query import queries_in

SCOPES = (('network_name', 'network'), ('account_id', 'account_id'), ('witness_type', 'witness_type'))


def _bound_names(f):
    names = set(a.arg for a in f.args.args + f.args.kwonlyargs)
    for n in ast.walk(f):
        tgt = None
        if isinstance(n, ast.Assign):
            tgt = n.targets
        elif isinstance(n, (ast.For, ast.comprehension)):
            tgt = [n.target]
        for t in tgt or []:
            for x in ast.walk(t):
                if isinstance(x, ast.Name):
                    names.add(x.id)
    return names


def scope_predicates(ctx, modname, why, floor):
    m = ctx.repo.mod(modname)
    n = 0
    per = {}
    for q, f in sorted(m.functions.items()):
        names = _bound_names(f)
        for x in queries_in(f):
            for col, var in SCOPES:
                if var not in names:
                    continue
                preds = [(p, p.split('==', 1)[1].strip()) for p in x.filters if ('.' + col + ' ==') in p] + \
                        [('%s=%s' % (k, v), v) for k, v in x.filter_by.items() if k == col]
                for text, rhs in preds:
                    n += 1
                    per[col] = per.get(col, 0) + 1
                    if rhs != var:
                        ctx.violate('%s:%s' % (modname, q), 'the query is scoped by `%s` although the method works on its own `%s` (every other %s predicate of the module compares with the variable)' % (text, var, col), x.node, why)
    ctx.saw('%d scope predicates compare the column with the method\'s own variable: %s' % (n, per))
    ctx.floor(n, floor, 'scope predicates')
