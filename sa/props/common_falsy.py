"""Shared obligation: parameters whose explicit falsy value is replaced by a default (engine sa/falsy.py)."""
import ast
import os

from ..core import AnalysisError, VERIF_DIR, ModuleInfo, norm, Repo
from .. import falsy


class _FixtureRepo:
    def __init__(self, mi):
        self.modules = {'fixture': mi}

    def mro(self, q):
        mn, cq = q.split(':')
        out = [q]
        c = self.modules[mn].classes[cq]
        for b in c.bases:
            if isinstance(b, ast.Name) and b.id in self.modules[mn].classes:
                out += self.mro(mn + ':' + b.id)
        return out


def _selftest(ctx):
    path = os.path.join(VERIF_DIR, 'fixtures', 'falsy_defaults.py')
    src = open(path).read()
    mi = ModuleInfo('fixture', 'fixtures/falsy_defaults.py', src, ast.parse(src))
    r = _FixtureRepo(mi)
    res = {}
    for q, f in mi.functions.items():
        for p, s, e in falsy.truthiness_defaults(f):
            res['%s(%s)' % (q, p)] = len(falsy.explicit_falsy_callers(r, 'fixture', q, f, p))
    if res != {'Bad.render(flag)': 1, 'Bad.render(label)': 0, 'Good.render(label)': 0}:
        raise AnalysisError('FALSY fixtures classified %s' % res)
    ctx.saw('falsy-default self-test on fixtures: %s' % res)


def falsy_defaults(ctx, modules, why):
    _selftest(ctx)
    n = idioms = 0
    for modname in modules:
        m = ctx.repo.mod(modname)
        for q, f in m.functions.items():
            n += 1
            for p, s, e in falsy.truthiness_defaults(f):
                idioms += 1
                for cmn, cq, c, val in falsy.explicit_falsy_callers(ctx.repo, modname, q, f, p):
                    ctx.violate('%s:%s' % (modname, q), 'parameter `%s` is replaced by `%s` whenever it is falsy (`%s`), but %s:%s calls `%s` with the explicit value %r' % (
                        p, norm(e)[:60], norm(s)[:70].split('\n')[0], cmn, cq, norm(c)[:80], val), s, why)
    ctx.saw('%d functions, %d truthiness-default idioms on parameters checked against explicit falsy arguments of in-package callers' % (n, idioms))


def _guard_selftest(ctx):
    path = os.path.join(VERIF_DIR, 'fixtures', 'guarded_stores.py')
    tree = ast.parse(open(path).read())
    res = {}
    for f in tree.body:
        if isinstance(f, ast.FunctionDef):
            res[f.name] = sorted(norm(s) for s, _, _ in falsy.value_guarded_stores(f))
    if res != {'bad_refresh': ["record.count = report['count']"], 'good_refresh': []}:
        raise AnalysisError('guarded-store fixtures classified %s' % res)
    ctx.saw('value-guarded-store self-test on fixtures: %s' % res)


def refresh_unconditional(ctx, scopes, why):
    """``scopes``: list of (module, predicate on qualname)"""
    _guard_selftest(ctx)
    n = stores = 0
    for modname, pred in scopes:
        m = ctx.repo.mod(modname)
        for q, f in m.functions.items():
            if not pred(q):
                continue
            n += 1
            stores += sum(1 for s in ast.walk(f) if isinstance(s, ast.Assign) and any(isinstance(t, (ast.Attribute, ast.Subscript)) for t in s.targets)
                          and any(isinstance(x, ast.Subscript) for x in ast.walk(s.value)))
            for st, guard, expr in falsy.value_guarded_stores(f):
                ctx.violate('%s:%s' % (modname, q), '`%s` runs only when `%s` is truthy (`if %s`): a reported value of 0 / empty never replaces the stored one' % (norm(st)[:80], expr, norm(guard.test)[:90]), st, why)
    ctx.saw('%d functions, %d stores of a looked-up value into a record scanned for a truthiness guard on the value itself' % (n, stores))
    return stores


_ZERO_FIXTURE = """
def bad(salt, lot=None, sequence=None):
    if (lot and not sequence) or (not lot and sequence):
        raise ValueError('both')
    if lot and sequence:
        if not 0 <= sequence <= 4095:
            raise ValueError('range')

def good(salt, lot=None, sequence=None):
    if (lot is None) != (sequence is None):
        raise ValueError('both')
    if lot is not None:
        if not 0 <= sequence <= 4095:
            raise ValueError('range')

def other(n=None):
    if not n:
        n = 5
    if not 1 <= n <= 9:
        raise ValueError('range')
"""


def zero_valid(ctx, modules, why):
    """parameters whose validated range includes 0 are never tested for presence by truthiness (engine sa/falsy.zero_valid_truth_tests)"""
    res = {f.name: len(falsy.zero_valid_truth_tests(f)) for f in ast.parse(_ZERO_FIXTURE).body}
    if res != {'bad': 3, 'good': 0, 'other': 0}:
        raise AnalysisError('zero-valid fixture classified %s' % res)
    ctx.saw('zero-valid self-test on the embedded fixture: %s' % res)
    n = ranges = 0
    for modname in modules:
        m = ctx.repo.mod(modname)
        for q, f in m.functions.items():
            n += 1
            hits = falsy.zero_valid_truth_tests(f)
            seen = set()
            for p, t, rg in hits:
                key = (p, norm(t))
                if key in seen:
                    continue
                seen.add(key)
                ctx.violate('%s:%s' % (modname, q), 'parameter `%s` is accepted in the range `%s`, which includes 0, but `%s` treats 0 as "not given"' % (p, norm(rg), norm(t)[:60]), t, why)
    ctx.saw('%d functions scanned for parameters that are range-checked with 0 inside the range and presence-tested by truthiness' % n)
    return n
