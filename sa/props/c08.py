"""C08 Wallet ledger consistency — spent-marking typestate, reader agreement, rescan rule, persistence map."""
import ast

from ..core import Property, AnalysisError, unparse, norm, walk_no_nested
from ..cfg import build_cfg
from ..sym import show, Interp, S, State, term
from ..dfa import guards_of, ReachingDefs
from ..query import queries_in, resolved_filters, parse_chain
from .. import mut

PROP = Property(
    'C08', 'Ledger: spent marking on send / update / delete, agreement of all readers of "unspent", rescan rule, store/reload column map',
    'Static: WalletTransaction.send, after a successful push, stores the transaction, marks every matching unspent row of each input '
    'spent (all rows, selected by previous txid and output index), commits and refreshes balances; the two update paths mark spent '
    'with the same predicate set; every reader of "unspent" (balance, utxos, coin selection, utxo_last) filters on spent IS False and '
    'the wallet; a rescan derives the spent flag from stored wallet inputs; delete() re-opens only the outputs named by the deleted '
    'transaction\'s inputs (txid AND index AND wallet); balances in the queried scope are reset before being overwritten; columns read by '
    'from_txid are written by store() from the corresponding attributes. Equality of sums over arbitrary histories is NOT decided.',
    ['SQLAlchemy query semantics', 'one database session per wallet'])

W = 'wallets'


def _qs(fn, model='DbTransactionOutput'):
    return [q for q in queries_in(fn) if q.models and q.models[0] == model]


@PROP.obligation('C08.mark', canaries=[
    mut.replace_expr(W, 'WalletTransaction.send', 'DbTransactionOutput.output_n == inp.output_n_int', 'DbTransactionOutput.output_n == inp.index_n', 'send marks the output with the input position spent'),
    mut.drop_stmt(W, 'WalletTransaction.send', 'self.hdwallet._balance_update', 'balances not refreshed after send'),
    mut.drop_stmt(W, 'WalletTransaction.send', 'self.store()', 'sent transaction not stored'),
    mut.drop_stmt(W, 'WalletTransaction.send', 'u.spent = True', 'inputs of a sent transaction stay unspent'),
    mut.replace_expr(W, 'WalletTransaction.send', 'DbTransaction.txid == txid', '(DbTransaction.txid == txid) & (DbTransaction.account_id == self.account_id)', 'only outputs of the transaction\'s own account are marked spent') if False else
    mut.replace_expr(W, 'WalletTransaction.send', 'DbTransactionOutput.spent.is_(False)', 'DbTransactionOutput.spent.is_(False), DbTransaction.account_id == self.account_id', 'only outputs of the transaction\'s own account are marked spent') if False else
    mut.drop_stmt(W, 'WalletTransaction.send', 'self.hdwallet._commit()', 'spent flags not committed'),
])
def mark(ctx):
    """WalletTransaction.send: on the path that sets pushed = True: self.store(); for every input ALL rows with (txid == inp.prev_txid,
    output_n == inp.output_n_int, spent IS False) get spent = True; _commit(); _balance_update(...)."""
    q = W + ':WalletTransaction.send'
    fn = ctx.repo.func(q)
    g = build_cfg(fn)
    pushed = [n for n in g.nodes if n.kind == 'stmt' and isinstance(n.ast, ast.Assign) and unparse(n.ast.targets[0]) == 'self.pushed' and unparse(n.ast.value) == 'True']
    if len(pushed) != 1:
        ctx.undecided('send: `self.pushed = True` not found')
    start = pushed[0].id
    rets = [n.id for n in g.nodes if n.kind == 'return'] + [g.exit_return]
    def must_pass(text):
        via = [n.id for n in g.nodes if n.ast is not None and n.kind in ('stmt', 'for') and text in unparse(n.ast).split('\n')[0]]
        return bool(via) and g.path_avoiding(rets, via=via, start=start) is None
    for text, why in (('self.store()', 'the sent transaction is not recorded'), ('self.hdwallet._commit()', 'spent flags are not committed'),
                      ('self.hdwallet._balance_update(', 'balances still include the spent outputs')):
        ok = must_pass(text)
        ctx.saw('after pushed=True every path passes `%s`: %s' % (text, ok))
        ctx.require(ok, q, 'after a successful push a path returns without `%s`' % text, pushed[0].ast, why)
    loops = [n for n in walk_no_nested(fn) if isinstance(n, ast.For) and unparse(n.iter) == 'self.inputs']
    if len(loops) != 1:
        ctx.violate(q, 'no loop over self.inputs marks the spent outputs', fn)
        return
    qs = _qs(loops[0])
    if len(qs) != 1:
        ctx.undecided('send: spent-marking query not found')
    x = qs[0]
    ctx.saw('spent-marking query: filters %s terminal %s' % (x.filters, x.terminal))
    need = ['DbTransaction.txid == txid', 'DbTransactionOutput.output_n == inp.output_n_int', 'DbTransactionOutput.spent.is_(False)']
    for f in need:
        ctx.require(f in x.filters, q, 'the rows marked spent are not selected by `%s` (filters: %s)' % (f, x.filters), x.node, 'the wrong output is marked spent / the spent one stays selectable')
    extra = [f for f in x.filters if f not in need]
    ctx.require(not extra, q, 'the rows marked spent are narrowed by `%s`: an outpoint is identified by the previous transaction id and the output index alone' % ', '.join(extra)[:120], x.node,
                'the spending transaction need not carry the account (or wallet) of the outputs it consumes - sweep(account_id=1) and explicit inputs build it for the default account: after the broadcast those outputs stay unspent and are selected again')
    ctx.require(x.terminal == 'all', q, 'spent marking uses .%s(): only one of the matching rows is updated' % x.terminal, x.node,
                'when several wallets in one database track the output, it stays unspent in the others (e.g. in the sending cosigner)')
    marks = [s for s in ast.walk(loops[0]) if isinstance(s, ast.Assign) and unparse(s.targets[0]).endswith('.spent') and unparse(s.value) == 'True']
    inner = [n for n in ast.walk(loops[0]) if isinstance(n, ast.For) and n is not loops[0]]
    ctx.require(bool(marks) and bool(inner), q, 'matching rows are not all set to spent = True', loops[0], 'an output consumed by a sent transaction is listed as unspent and selected again')
    tx_assign = [s for s in ast.walk(loops[0]) if isinstance(s, ast.Assign) and unparse(s.targets[0]) == 'txid']
    ctx.require(any(unparse(s.value) == 'inp.prev_txid' for s in tx_assign), q, 'the previous transaction id used for marking is not inp.prev_txid', loops[0])


@PROP.obligation('C08.mark-siblings', canaries=[
    mut.replace_expr(W, 'Wallet.transactions_update_by_txids', 'DbTransactionOutput.output_n == utxo[1]', 'DbTransactionOutput.output_n >= utxo[1]', 'update by txid marks later outputs spent too'),
])
def mark_siblings(ctx):
    """The update paths that record spends (transactions_update, transactions_update_by_txids) select rows by (txid == previous txid,
    output_n == index, spent IS False), mark all of them and commit — the same predicate set as send()."""
    for meth in ('Wallet.transactions_update_by_txids', 'Wallet.transactions_update'):
        q = W + ':' + meth
        fn = ctx.repo.func(q)
        qs = [x for x in _qs(fn) if any('spent.is_(False)' in f for f in x.filters) and x.terminal == 'all' and any('output_n' in f for f in x.filters)]
        ctx.saw('%s: spent-marking queries %s' % (meth, [x.filters for x in qs]))
        if not qs:
            ctx.violate(q, 'no query selects the unspent rows consumed by the imported transactions (txid, output_n, spent IS False)', fn,
                        'outputs spent by imported transactions stay unspent')
            continue
        for x in qs:
            ok = any(f.startswith('DbTransaction.txid ==') for f in x.filters) and any(f.startswith('DbTransactionOutput.output_n ==') for f in x.filters)
            ctx.require(ok, q, 'spent marking selects rows by %s, expected equality on txid and output_n' % x.filters, x.node)
        marks = [n for n in ast.walk(fn) if (isinstance(n, ast.Assign) and norm(n.targets[0]).endswith('.spent') and isinstance(n.value, ast.Constant) and n.value.value is True) or
                 (isinstance(n, ast.Call) and isinstance(n.func, ast.Attribute) and n.func.attr == 'update' and 'spent' in norm(n) and 'True' in norm(n))]
        commits = [c for c in ast.walk(fn) if isinstance(c, ast.Call) and isinstance(c.func, ast.Attribute) and c.func.attr in ('_commit', 'commit')]
        ctx.require(bool(marks) and bool(commits), q, 'rows are not set spent = True and committed', fn)


@PROP.obligation('C08.readers', canaries=[
    mut.replace_expr(W, 'Wallet.utxos', 'DbTransactionOutput.spent.is_(False)', 'DbTransactionOutput.spent.isnot(None)', 'utxos() lists spent outputs'),
    mut.replace_expr(W, 'Wallet._balance_update', 'DbTransaction.wallet_id == self.wallet_id', 'DbTransaction.wallet_id != None', 'balance sums outputs of all wallets'),
])
def readers(ctx):
    """All readers of "unspent" filter unconditionally on DbTransactionOutput.spent IS False and on this wallet: _balance_update, utxos,
    select_inputs, utxo_last."""
    for meth, var in (('Wallet._balance_update', 'qr'), ('Wallet.utxos', 'qr'), ('Wallet.select_inputs', 'utxo_query'), ('Wallet.utxo_last', None)):
        q = W + ':' + meth
        fn = ctx.repo.func(q)
        if var:
            models, uncond, cond = resolved_filters(fn, var)
        else:
            qs = _qs(fn, 'DbTransaction.txid') or [x for x in queries_in(fn) if x.models]
            uncond = qs[0].filters if qs else []
        ctx.saw('%s: unconditional filters %s' % (meth, uncond))
        ctx.require('DbTransactionOutput.spent.is_(False)' in uncond, q, 'reader of unspent outputs does not filter on spent IS False', fn,
                    'spent outputs are counted in the balance / listed / selected')
        ctx.require(any('wallet_id == self.wallet_id' in f for f in uncond), q, 'reader of unspent outputs is not scoped to this wallet', fn,
                    'outputs of other wallets in the same database are counted')


@PROP.obligation('C08.rescan', canaries=[
    mut.replace_expr(W, 'Wallet.utxos_update', 'bool(spent_in_db.count())', 'False', 'rescan resurrects outputs spent by stored wallet transactions', nth=1),
    mut.replace_expr(W, 'Wallet.utxos_update', "DbTransactionInput.output_n == utxo['output_n']", "DbTransactionInput.index_n == utxo['output_n']", 'rescan matches the input position instead of the outpoint index'),
    mut.replace_expr(W, 'Wallet.utxos_update', "DbTransactionInput.prev_txid == bytes.fromhex(utxo['txid'])", "DbTransactionInput.prev_txid == bytes.fromhex(utxo['txid']) and DbTransaction.account_id == account_id", 'stored-input look-up narrowed', nth=99) if False else
    mut.replace_expr(W, 'Wallet.utxos_update', 'DbTransaction.wallet_id == self.wallet_id', 'DbTransaction.account_id == account_id', 'stored-input look-up keyed by account instead of wallet', nth=2),
])
def rescan(ctx):
    """utxos_update: a UTXO reported by a provider is stored / refreshed with spent = bool(count of wallet inputs with the same
    (prev_txid, output_n)), so an output consumed by a stored wallet transaction is never resurrected."""
    q = W + ':Wallet.utxos_update'
    fn = ctx.repo.func(q)
    sp = [x for x in queries_in(fn) if x.models and x.models[0] == 'DbTransactionInput']
    if len(sp) != 1:
        ctx.undecided('utxos_update: query over stored inputs not found')
    x = sp[0]
    ctx.saw('stored-input query filters: %s' % x.filters)
    for f in ('DbTransaction.wallet_id == self.wallet_id', "DbTransactionInput.prev_txid == bytes.fromhex(utxo['txid'])", "DbTransactionInput.output_n == utxo['output_n']"):
        ctx.require(f in x.filters, q, 'stored wallet inputs are not matched by `%s`' % f, x.node, 'the spent flag of a re-imported UTXO is derived from the wrong rows')
    # an outpoint is identified by (wallet, previous txid, index) alone: any further predicate narrows the look-up and lets a spending
    # input that is recorded under another account / network / status go unnoticed
    known = ('DbTransaction.wallet_id == self.wallet_id', "DbTransactionInput.prev_txid == bytes.fromhex(utxo['txid'])", "DbTransactionInput.output_n == utxo['output_n']")
    for f in x.filters:
        if f in known:
            continue
        cols = [c for c in ('account_id', 'network_name', 'status', 'confirmations', 'key_id', 'is_complete', 'block_height', 'witness_type', 'index_n', 'address', 'script_type') if ('.' + c) in f]
        if cols and '==' in f:
            ctx.violate(q, 'the look-up of stored inputs that spend a reported UTXO is narrowed by `%s`' % f, x.node,
                        'a sweep of account 1 is stored under the default account: utxos_update(account_id=1) marks the swept outputs unspent again')
        else:
            ctx.unsure('%s: extra predicate `%s` on the stored-input look-up' % (q, f))
    ctx.require(not x.filter_by, q, 'stored-input look-up uses filter_by(%s)' % x.filter_by, x.node)
    sets = [n for n in ast.walk(fn) if (isinstance(n, ast.Assign) and unparse(n.targets[0]).endswith('.spent')) or (isinstance(n, ast.keyword) and n.arg == 'spent')]
    vals = sorted(set(norm(n.value) for n in sets if 'True' != norm(n.value)))
    ctx.saw('spent flag of (re)imported UTXOs: %s' % vals)
    ctx.require(vals == ['bool(spent_in_db.count())'], q, 'the spent flag of a re-imported UTXO is set from %s, expected bool(spent_in_db.count())' % vals, fn,
                'an output already consumed by a transaction of this wallet becomes unspent again after utxos_update')


@PROP.obligation('C08.delete', canaries=[
    mut.replace_expr(W, 'WalletTransaction.delete', 'DbTransaction.txid == inp.prev_txid, DbTransactionOutput.output_n == inp.output_n', 'DbTransaction.txid == inp.prev_txid', 'delete re-opens all outputs of the funding transaction') if False else
    mut.replace_expr(W, 'WalletTransaction.delete', 'DbTransactionOutput.output_n == inp.output_n', 'DbTransactionOutput.output_n >= 0', 'delete re-opens every output of the funding transaction'),
])
def delete(ctx):
    """WalletTransaction.delete resets spent only on rows matched by (txid == inp.prev_txid AND output_n == inp.output_n AND this wallet)
    of the deleted transaction's own inputs."""
    q = W + ':WalletTransaction.delete'
    fn = ctx.repo.func(q)
    loops = [n for n in walk_no_nested(fn) if isinstance(n, ast.For) and 'tx.inputs' in unparse(n.iter)]
    if len(loops) != 1:
        ctx.undecided('delete: loop over the inputs of the deleted transaction not found')
    qs = _qs(loops[0])
    if not qs:
        ctx.undecided('delete: query for previously spent outputs not found')
    x = qs[0]
    ctx.saw('re-opened rows selected by: %s' % x.filters)
    for f in ('DbTransaction.txid == inp.prev_txid', 'DbTransactionOutput.output_n == inp.output_n', 'DbTransaction.wallet_id == self.hdwallet.wallet_id'):
        ctx.require(f in x.filters, q, 'rows to re-open are not restricted by `%s` (filters: %s)' % (f, x.filters), x.node,
                    'deleting one transaction marks outputs unspent that another stored transaction has consumed')
    resets = [s for s in ast.walk(fn) if isinstance(s, ast.Assign) and unparse(s.targets[0]).endswith('.spent') and unparse(s.value) == 'False']
    ctx.require(all(any(s is y for y in ast.walk(loops[0])) for s in resets) and bool(resets), q, 'spent flags are reset outside the loop over the deleted transaction\'s inputs', fn)


def _is_commit(c):
    return isinstance(c, ast.Call) and isinstance(c.func, ast.Attribute) and c.func.attr in ('_commit', 'commit')


def _is_session_write(c):
    if not isinstance(c, ast.Call) or not isinstance(c.func, ast.Attribute):
        return False
    a, base = c.func.attr, unparse(c.func.value)
    if a in ('add', 'merge') and base.endswith('session'):
        return True
    if a == 'delete' and ('query' in base or base.endswith('session')):
        return True
    return a == 'update' and 'query' in base


@PROP.obligation('C08.commit-paths', canaries=[
    mut.replace_stmt(W, 'WalletTransaction.delete', 'self.hdwallet._commit()', 'if key:\n    self.hdwallet._commit()', 'delete() commits only when a key still points at the transaction', nth=0),
])
def commit_paths(ctx):
    """Every method of wallets.py that writes through the session (add / merge / delete / query.update) and commits at all, commits on every
    path from each write to a normal return (must-pass-through on the control-flow graph; exception paths and the false branch of a
    `commit` mode flag excepted): a write left pending is lost when the session is closed, so the ledger after reopening
    disagrees with the one the caller saw."""
    from ..cfg import node_asts
    m = ctx.repo.mod(W)
    n_fn = n_writes = 0
    for q, f in sorted(m.functions.items()):
        calls = [c for c in ast.walk(f) if isinstance(c, ast.Call)]
        if not any(_is_commit(c) for c in calls) or not any(_is_session_write(c) for c in calls):
            continue
        n_fn += 1
        g = build_cfg(f)
        params = set(a.arg for a in f.args.args + f.args.kwonlyargs)
        # mode flags: locals that only ever hold a boolean constant (commit = True / False chosen from the arguments)
        asg = {}
        for x in ast.walk(f):
            if isinstance(x, ast.Assign) and len(x.targets) == 1 and isinstance(x.targets[0], ast.Name):
                asg.setdefault(x.targets[0].id, []).append(isinstance(x.value, ast.Constant) and isinstance(x.value.value, bool))
        params |= set(k for k, v in asg.items() if all(v))
        commits = set(n.id for n in g.nodes if any(_is_commit(c) for frag in node_asts(n) for c in ast.walk(frag)))
        writes = [n.id for n in g.nodes if any(_is_session_write(c) for frag in node_asts(n) for c in ast.walk(frag))]
        flag_false = set()
        for n in g.nodes:
            if n.kind == 'test' and isinstance(n.ast, ast.Name) and n.ast.id in params:
                flag_false |= set(g.false_edge(n.id))
        for w in writes:
            n_writes += 1
            if w in commits:
                continue
            seen = g.reach([w], blocked_nodes=commits, blocked_edges=flag_false, skip_exc=True)
            if g.exit_return in seen:
                p = g.path(seen, g.exit_return)
                ctx.violate('%s:%s' % (W, q), 'the session write `%s` reaches a normal return without a commit (path %s)' % (norm(g[w].ast)[:70].split('\n')[0], g.describe_path(p)[:120]), g[w].ast,
                            'the change stays pending in the session: it is visible to later queries of this session but rolled back when the wallet is closed - after reopening the ledger differs')
    ctx.saw('%d methods that write through the session and commit, %d write sites: each write is followed by a commit on every normal path' % (n_fn, n_writes))
    ctx.floor(n_fn, 12, 'methods that write and commit')


@PROP.obligation('C08.scope-predicates', canaries=[
    mut.replace_expr(W, 'Wallet.utxos_update', 'DbTransaction.network_name == network', 'DbTransaction.network_name == self.network.name', 'rescan of another network wipes the unspent outputs of the default network', nth=0),
    mut.replace_expr(W, 'Wallet._balance_update', 'DbTransaction.network_name == network', 'DbTransaction.network_name == self.network.name', 'balance of another network computed from the default network'),
])
def scope_predicates(ctx):
    """Every query of a Wallet method that binds network / account_id / witness_type filters the column of that meaning with the
    method's own variable, never with the wallet default: the ledger operations (rescan reset, balance, unspent list, input selection)
    of one network or account do not touch or read the rows of another."""
    from .common_scope import scope_predicates as run
    run(ctx, W, 'a rescan / balance / selection for one network or account reads or rewrites the rows of the wallet default: outputs of the other network are flagged spent and never restored', 35)


@PROP.obligation('C08.groupby-sorted', canaries=[
    mut.replace_expr(W, 'Wallet._balance_update', 'groupby(sorted(key_balance_list, key=grouper), grouper)', 'groupby(key_balance_list, grouper)', 'per-account totals grouped without sorting', nth=0),
    mut.replace_expr(W, 'Wallet._balance_update', 'groupby(sorted(key_values, key=grouper), grouper)', 'groupby(sorted(key_values, key=itemgetter("id")), grouper)', 'per-key totals sorted by another key than they are grouped by'),
])
def groupby_sorted(ctx):
    """itertools.groupby only merges ADJACENT items: every groupby(X, key) in wallets.py (the per-key and the per-network/account totals
    of _balance_update) receives X = sorted(..., key=<the same key expression>). Grouping an unsorted list yields one group per run, and
    the later group of an account overwrites the earlier one in Wallet._balances."""
    m = ctx.repo.mod(W)
    n = 0
    for q, f in sorted(m.functions.items()):
        for c in ast.walk(f):
            if not (isinstance(c, ast.Call) and norm(c.func) in ('groupby', 'itertools.groupby') and c.args):
                continue
            n += 1
            key = c.args[1] if len(c.args) > 1 else next((k.value for k in c.keywords if k.arg == 'key'), None)
            src = c.args[0]
            ok = isinstance(src, ast.Call) and norm(src.func) == 'sorted' and key is not None and any(k.arg == 'key' and norm(k.value) == norm(key) for k in src.keywords)
            ctx.saw('%s: groupby(%s, %s)' % (q, norm(src)[:60], norm(key) if key is not None else None))
            if not ok:
                ctx.violate('%s:%s' % (W, q), '`%s` groups a sequence that is not sorted by the grouping key' % norm(c)[:100], c,
                            'funded keys of two accounts created alternately: the account total only counts the last run of keys - balance() differs from the sum of the unspent outputs')
    ctx.floor(n, 2, 'groupby calls')


@PROP.obligation('C08.bump-replaces', canaries=[
    mut.replace_stmt(W, 'WalletTransaction.bumpfee', 'if self.pushed:', 'if self.pushed and broadcast:\n    self.hdwallet.transaction_delete(old_txid)', 'the replaced transaction stays stored unless the bump is broadcast at once'),
])
def bump_replaces(ctx):
    """WalletTransaction.bumpfee re-signs the transaction under a new txid. When the old one had been pushed (and stored) it is removed
    from the wallet on EVERY normal path, whether or not the replacement is broadcast in the same call (must-pass-through with
    `self.pushed` true): otherwise the replaced transaction and its replacement are both stored, two stored transactions spend the
    same outpoints and both change outputs count as unspent."""
    from ..cfg import node_asts
    q = W + ':WalletTransaction.bumpfee'
    fn = ctx.repo.func(q)
    g = build_cfg(fn)
    dels = set(n.id for n in g.nodes if any(isinstance(c, ast.Call) and norm(c.func) in ('self.hdwallet.transaction_delete', 'self.delete') for frag in node_asts(n) for c in ast.walk(frag)))
    if not dels:
        ctx.violate(q, 'the replaced transaction is never removed from the wallet', fn, 'the replaced transaction and its replacement are both stored')
        return
    off = set()
    for n in g.nodes:
        if n.kind == 'test' and norm(n.ast) == 'self.pushed':
            off |= set(g.false_edge(n.id))
    p = g.path_avoiding([g.exit_return], dels, blocked_edges=off, skip_exc=True)
    ctx.saw('bumpfee: every normal path with self.pushed true passes through transaction_delete(old_txid): %s' % (p is None))
    if p is not None:
        tests = [norm(g[i].ast) for i in p if g[i].kind == 'test' and g[i].ast is not None]
        ctx.violate(q, 'with self.pushed true there is a normal path that keeps the replaced transaction (path %s, decided by %s)' % (g.describe_path(p)[:80], tests[-2:]), fn,
                    'bumpfee() with the default broadcast=False followed by send(): balance and utxos() count the change of both transactions, also after reopening')


@PROP.obligation('C08.store-keeps-spent')
def store_keeps_spent(ctx):
    """WalletTransaction.store refreshes an output row that already exists. The stored spent flag may only be RAISED by that refresh: the
    expression assigned to the row's spent column, evaluated with the row at spent=True and the in-memory output at its constructor
    default spent=False, must stay True - an Output object carries False until told otherwise, so writing it back revives an output that
    a later stored transaction has consumed (send() of an already stored transaction, transaction_import of an old object)."""
    q = W + ':WalletTransaction.store'
    fn = ctx.repo.func(q)
    asg = [n for n in ast.walk(fn) if isinstance(n, ast.Assign) and norm(n.targets[0]).endswith('.spent') and isinstance(n.targets[0], ast.Attribute) and isinstance(n.targets[0].value, ast.Name)]
    if not asg:
        ctx.saw('store never rewrites the spent flag of an existing output row')
        return
    from ..sym import Interp, S, State, term, show
    for a in asg:
        row = a.targets[0].value.id
        R = ('var', row)
        res = {}
        for mem in (False, None, True):
            it = Interp(ctx.repo, W, self_cls=W + ':WalletTransaction')
            st = State(env={row: S(R), 'spent': mem, 'self': S(('var', 'self'))})
            st.heap[('attr', R, 'spent')] = True
            v = it.eval(a.value, st)
            res[mem] = v if isinstance(v, bool) or v is None else show(term(v))[:60]
        ctx.saw('existing row spent=True, in-memory flag False / None / True -> %s' % [res[m] for m in (False, None, True)])
        if res[False] is not True:
            ctx.violate(q, 'an existing output row with spent=True is rewritten with the in-memory flag (`%s`): spent=False, the constructor default, clears it' % norm(a)[:100], a,
                        't1 pays change c; t2 (stored) spends c; t1.send() again -> c is unspent once more: balance and utxos() count it a second time')
        if res[None] is not True:
            ctx.violate(q, 'an existing output row with spent=True loses the flag when the in-memory flag is unknown (`%s`)' % norm(a)[:100], a)


@PROP.obligation('C08.balance-writes', canaries=[
    mut.replace_expr(W, 'Wallet._balance_update', "[{'id': kb['id'], 'balance': kb['balance']} for kb in key_balance_list]", 'key_balance_list', 'grouping records written into the key rows'),
])
def balance_writes(ctx):
    """Wallet._balance_update writes balances, nothing else: the records handed to session.bulk_update_mappings(DbKey, ...) carry the
    primary key and `balance` only. Its working records also hold the network and account of the TRANSACTION that pays the key; written
    into DbKey they move a key that was paid from another account into that account (DbKey.account_id is what new_keys / keys filter on)."""
    q = W + ':Wallet._balance_update'
    fn = ctx.repo.func(q)
    calls = [c for c in ast.walk(fn) if isinstance(c, ast.Call) and isinstance(c.func, ast.Attribute) and c.func.attr == 'bulk_update_mappings']
    if not calls:
        ctx.saw('_balance_update does not bulk-update rows')
        return
    cols = set(n.targets[0].id for n in ctx.repo.cls('db:DbKey').body if isinstance(n, ast.Assign) and isinstance(n.targets[0], ast.Name))
    for c in calls:
        if len(c.args) != 2 or norm(c.args[0]) != 'DbKey':
            ctx.unsure('%s: bulk update of %s' % (q, norm(c.args[0]) if c.args else '?'))
            continue
        rec = c.args[1]
        keys = None
        if isinstance(rec, ast.ListComp) and isinstance(rec.elt, ast.Dict) and all(isinstance(k, ast.Constant) for k in rec.elt.keys):
            keys = [k.value for k in rec.elt.keys]
        elif isinstance(rec, ast.Name):
            # a list built elsewhere in the function: the keys of every dict literal appended to / comprehended into it
            keys = []
            for n in ast.walk(fn):
                if isinstance(n, ast.Dict) and all(isinstance(k, ast.Constant) for k in n.keys) and any(isinstance(k, ast.Constant) and k.value == 'balance' for k in n.keys):
                    keys += [k.value for k in n.keys]
                if isinstance(n, ast.Call) and norm(n.func) == 'dict' and n.args and isinstance(n.args[0], ast.Call) and norm(n.args[0].func) == 'zip' and isinstance(n.args[0].args[0], ast.List):
                    keys += [e.value for e in n.args[0].args[0].elts if isinstance(e, ast.Constant)]
        if keys is None:
            ctx.unsure('%s: records of the bulk update not recognised: %s' % (q, norm(rec)[:60]))
            continue
        written = sorted(set(k for k in keys if k in cols) - {'id'})
        ctx.saw('bulk update of DbKey writes the columns %s' % written)
        extra = [k for k in written if k != 'balance']
        if extra:
            ctx.violate(q, 'the balance update also writes the DbKey column(s) %s from its grouping records (account / network of the paying transaction)' % extra, c,
                        "a key of account 1 paid from account 0 moves to account 0: new_key(account_id=1) issues m/.../1'/0/0 again, keys(account_id=1) no longer lists it")


@PROP.obligation('C08.balance-reset', canaries=[
    mut.replace_stmt(W, 'Wallet._balance_update', "b['balance'] = 0", 'pass', 'stale totals survive when nothing is unspent'),
])
def balance_reset(ctx):
    """_balance_update: the cached totals of every (network, account) in the queried scope are reset before the query result is applied
    (otherwise a scope with no unspent output left keeps its old total); the wallet total and the per-key balances derive from the same
    query result."""
    q = W + ':Wallet._balance_update'
    fn = ctx.repo.func(q)
    upd = [n for n in walk_no_nested(fn) if isinstance(n, ast.For) and unparse(n.iter) == 'balance_list']
    if not upd:
        ctx.undecided('_balance_update: application of balance_list to self._balances not found')
    first = min(n.lineno for n in upd)
    resets = [n for n in walk_no_nested(fn) if isinstance(n, ast.For) and unparse(n.iter) == 'self._balances' and n.lineno < first and
              any(isinstance(s, ast.Assign) and norm(s.targets[0]).endswith("['balance']") and norm(s.value) == '0' for s in ast.walk(n))]
    rebuilt = [n for n in walk_no_nested(fn) if isinstance(n, ast.Assign) and unparse(n.targets[0]) == 'self._balances' and n.lineno < first]
    ctx.saw('resets before applying the result: %d, rebuilds: %d' % (len(resets), len(rebuilt)))
    ctx.require(bool(resets) or bool(rebuilt), q, 'cached totals are only overwritten for scopes that still have unspent outputs; an emptied scope keeps its previous total', upd[0],
                'after the last output is spent balance() keeps reporting the old amount')
    # which cached totals are reset: every entry inside the scope of this update, i.e. the (network, account) filters of the query
    if resets:
        from ..sym import Interp, S, State
        guard = [s for s in resets[0].body if isinstance(s, ast.If) and any(isinstance(x, ast.Assign) and norm(x.value) == '0' for x in ast.walk(s))]
        if not guard:
            ctx.saw('the reset is unconditional')
        else:
            it = Interp(ctx.repo, W, self_cls=W + ':Wallet')
            for net, acc, b, exp in ((None, None, ('bitcoin', 0), True), ('bitcoin', None, ('bitcoin', 3), True), ('bitcoin', None, ('litecoin', 3), False),
                                     (None, 3, ('bitcoin', 3), True), (None, 3, ('bitcoin', 4), False), ('bitcoin', 3, ('bitcoin', 3), True), ('bitcoin', 3, ('litecoin', 3), False)):
                st = State(env={'network': net, 'account_id': acc, 'b': {'network': b[0], 'account_id': b[1], 'balance': 5}, 'self': S(('var', 'self'))})
                got = it.truth(it.eval(guard[0].test, st), st)
                if not isinstance(got, bool):
                    ctx.undecided('_balance_update: reset condition not decidable: %s' % norm(guard[0].test))
                ctx.saw('update(network=%s, account_id=%s): cached total of %s reset: %s' % (net, acc, b, got))
                if exp and not got:
                    ctx.violate(q, 'update(network=%s, account_id=%s) does not reset the cached total of %s although it lies in the queried scope (`%s`)' % (net, acc, b, norm(guard[0].test)), guard[0],
                                'balance() (network=None, account_id=None) keeps reporting the old amount after the last output was spent')
                if got and not exp:
                    ctx.violate(q, 'update(network=%s, account_id=%s) resets the cached total of %s, which is outside the queried scope' % (net, acc, b), guard[0],
                                'the balance of another account / network drops to 0 until it is refreshed')
    # per-key balances: every key of the scope without an unspent output gets a 0 entry, whatever its stored balance says (the ORM objects
    # are stale inside a session: balances are written with bulk_update_mappings)
    zero = [n for n in walk_no_nested(fn) if isinstance(n, ast.For) and 'self.keys(' in norm(n.iter)]
    zifs = [s_ for z in zero for s_ in z.body if isinstance(s_, ast.If) and "'balance': 0" in norm(s_)]
    if not zifs:
        ctx.unsure('%s: zero entries for keys without unspent outputs not found' % q)
    else:
        t = zifs[0].test
        reads = sorted(set(norm(a) for a in ast.walk(t) if isinstance(a, ast.Attribute) and isinstance(a.value, ast.Name) and a.value.id == zero[0].target.id))
        ctx.saw('a key gets a 0 entry when `%s` (reads %s of the key)' % (norm(t), reads))
        stale = [r for r in reads if r.split('.')[-1] in ('balance', 'used', 'latest_txid')]
        ctx.require(not stale, q, 'whether a key without unspent outputs is reset depends on its stored %s' % ', '.join(stale), zifs[0],
                    'a key funded in this session still reads balance 0, is skipped, and keeps its old balance after its last output was spent elsewhere')
    src = unparse(fn)
    ctx.require("self._balance = sum([b['balance'] for b in balance_list" in src, q, 'wallet total is not the sum over the grouped query result', fn)
    bulk = [c for c in ast.walk(fn) if isinstance(c, ast.Call) and isinstance(c.func, ast.Attribute) and c.func.attr == 'bulk_update_mappings' and len(c.args) == 2 and norm(c.args[0]) == 'DbKey']
    ctx.require(bool(bulk) and all(any(isinstance(x, ast.Name) and x.id == 'key_balance_list' for x in ast.walk(c.args[1])) for c in bulk), q,
                'per-key balances are not written from the same grouped result (key_balance_list)', fn)


@PROP.obligation('C08.persist', canaries=[
    mut.replace_expr(W, 'WalletTransaction.store', 'output_n=ti.output_n_int', 'output_n=ti.index_n', 'stored input outpoint index wrong') if False else
    mut.replace_expr(W, 'WalletTransaction.store', 'ti.output_n_int', 'ti.index_n', 'store writes the input position as outpoint index'),
    mut.replace_expr(W, 'WalletTransaction.from_txid', 'out.script', 'out.address', 'reload builds the lock script from the address column'),
    mut.replace_stmt(W, 'WalletTransaction.from_txid', 'sigs_required = hdwallet.multisig_n_required', 'sigs_required = None', 'multisig inputs reloaded with the default threshold'),
])
def persist(ctx):
    """Columns read by WalletTransaction.from_txid are written by WalletTransaction.store from the corresponding attribute (inputs:
    prev_txid, output_n<-output_n_int, script<-unlocking_script, script_type, sequence, index_n, value, witness_type, witnesses, address;
    outputs: value, script<-lock_script, spent, output_n, script_type, is_change<-change; transaction: locktime, version<-version_int, ...)."""
    repo = ctx.repo
    wq = W + ':WalletTransaction.store'
    wf = repo.func(wq)
    written = {}
    for c in ast.walk(wf):
        if isinstance(c, ast.Call) and unparse(c.func) in ('DbTransaction', 'DbTransactionInput', 'DbTransactionOutput'):
            written[unparse(c.func)] = {k.arg: norm(k.value) for k in c.keywords}
    if len(written) != 3:
        ctx.undecided('store: row constructions not found')
    rq = W + ':WalletTransaction.from_txid'
    rf = repo.func(rq)
    read = {'db_tx': set(), 'inp': set(), 'out': set()}
    for n in ast.walk(rf):
        if isinstance(n, ast.Attribute) and isinstance(n.value, ast.Name) and n.value.id in read:
            read[n.value.id].add(n.attr)
    ctx.saw('reader: tx %s' % sorted(read['db_tx']))
    ctx.saw('reader: input %s output %s' % (sorted(read['inp']), sorted(read['out'])))
    for var, model in (('db_tx', 'DbTransaction'), ('inp', 'DbTransactionInput'), ('out', 'DbTransactionOutput')):
        for col in sorted(read[var] - {'inputs', 'outputs', 'key_id'}):
            ctx.require(col in written[model], rq, 'reads %s.%s which store() never writes' % (model, col), rf, 'the reloaded transaction gets a default instead of the stored value')
    want_in = {'prev_txid': 'ti.prev_txid', 'output_n': 'ti.output_n_int', 'script': 'ti.unlocking_script', 'script_type': 'ti.script_type', 'sequence': 'ti.sequence',
               'index_n': 'ti.index_n', 'value': 'ti.value', 'witness_type': 'ti.witness_type', 'address': 'ti.address'}
    for col, src in want_in.items():
        ctx.require(written['DbTransactionInput'].get(col) == src, wq, 'input column %s is written from `%s`, from_txid interprets it as %s' % (col, written['DbTransactionInput'].get(col), src), wf,
                    'a stored transaction reloads with different inputs / serialization')
    # the witness stack is persisted for EVERY input type (p2sh-segwit inputs are rebuilt from it alone): all definitions of the value
    # written to the witnesses column derive from ti.witnesses
    from ..dfa import ReachingDefs
    rd = ReachingDefs(wf)
    icall = [c for c in ast.walk(wf) if isinstance(c, ast.Call) and unparse(c.func) == 'DbTransactionInput'][0]
    wkw = [k.value for k in icall.keywords if k.arg == 'witnesses']
    if not wkw:
        ctx.violate(wq, 'the witness stack of an input is not stored', icall, 'reloaded segwit transactions come back unsigned')
    else:
        nid = rd.node_of_ast(icall)
        if isinstance(wkw[0], ast.Name):
            defs = rd.reaching(nid, wkw[0].id)
            srcs = [norm(d.value) if d.value is not None else d.kind for d in defs]
            ctx.saw('witnesses column <- %s' % srcs)
            for d in defs:
                lv = rd.leaves(d.value, d.node_id) if d.value is not None else set()
                if not any(x[0] == 'attr' and x[1] == 'ti.witnesses' for x in lv):
                    ctx.violate(wq, 'on some path the witnesses column is written from `%s`, not from the witness stack of the input' % (norm(d.value) if d.value is not None else d.kind), d.ast,
                                'a stored p2sh-segwit transaction reloads without signature and public key: another raw transaction, verify() False')
        else:
            ctx.require('ti.witnesses' in norm(wkw[0]), wq, 'witnesses column is written from `%s`' % norm(wkw[0]), icall)
    want_out = {'value': 'to.value', 'script': 'to.lock_script', 'output_n': 'to.output_n', 'script_type': 'to.script_type', 'is_change': 'to.change', 'spent': 'spent'}
    for col, src in want_out.items():
        ctx.require(written['DbTransactionOutput'].get(col) == src, wq, 'output column %s is written from `%s`, from_txid interprets it as %s' % (col, written['DbTransactionOutput'].get(col), src), wf)
    want_tx = {'locktime': 'self.locktime', 'version': 'self.version_int', 'txid': 'bytes.fromhex(self.txid)', 'fee': 'self.fee', 'raw': 'self.rawtx'}
    for col, src in want_tx.items():
        ctx.require(written['DbTransaction'].get(col) == src, wq, 'transaction column %s is written from `%s`, expected %s' % (col, written['DbTransaction'].get(col), src), wf)
    # reader side mapping
    calls = {unparse(c.func): c for c in ast.walk(rf) if isinstance(c, ast.Call) and unparse(c.func) in ('Input', 'Output', 'cls')}
    if set(calls) != {'Input', 'Output', 'cls'}:
        ctx.undecided('from_txid: constructions not found')
    kin = {k.arg: norm(k.value) for k in calls['Input'].keywords}
    for k, v in (('prev_txid', 'inp.prev_txid'), ('output_n', 'inp.output_n'), ('unlocking_script', 'inp.script'), ('script_type', 'inp.script_type'), ('index_n', 'inp.index_n'),
                 ('value', 'inp.value'), ('witness_type', 'inp.witness_type'), ('witnesses', 'inp.witnesses')):
        ctx.require(kin.get(k) == v, rq, 'input field %s is rebuilt from `%s`, expected %s' % (k, kin.get(k), v), calls['Input'])
    # multisig inputs are rebuilt with the threshold of the wallet: the stored script of a p2sh-segwit input is only the push of the witness
    # program, from which Input() cannot read m (it would fall back to 1 and rebuild a 1-of-n redeem script)
    sr = kin.get('sigs_required')
    if sr is None:
        ctx.violate(rq, 'inputs are rebuilt without sigs_required', calls['Input'], 'a stored 2-of-2 p2sh-segwit transaction reloads with a 1-of-2 redeem script: another raw transaction than the stored one')
    else:
        from ..dfa import ReachingDefs as _RD
        rd2 = _RD(rf)
        lv = rd2.leaves(calls['Input'].keywords[[k.arg for k in calls['Input'].keywords].index('sigs_required')].value, rd2.node_of_ast(calls['Input']))
        ok = any(x[0] == 'attr' and x[1].endswith('multisig_n_required') for x in lv)
        ctx.saw('from_txid: Input(sigs_required=%s) <- %s' % (sr, sorted(str(x) for x in lv if x[0] in ('attr', 'const'))))
        ctx.require(ok, rq, 'the sigs_required of rebuilt inputs does not come from the wallet threshold (multisig_n_required)', calls['Input'],
                    'a stored 2-of-2 p2sh-segwit transaction reloads with a 1-of-2 redeem script: another raw transaction than the stored one')
    kout = {k.arg: norm(k.value) for k in calls['Output'].keywords}
    for k, v in (('value', 'out.value'), ('lock_script', 'out.script'), ('spent', 'out.spent'), ('output_n', 'out.output_n'), ('script_type', 'out.script_type'), ('change', 'out.is_change')):
        ctx.require(kout.get(k) == v, rq, 'output field %s is rebuilt from `%s`, expected %s' % (k, kout.get(k), v), calls['Output'])
    kt = {k.arg: norm(k.value) for k in calls['cls'].keywords}
    for k, v in (('locktime', 'db_tx.locktime'), ('version', 'db_tx.version'), ('rawtx', 'db_tx.raw'), ('fee', 'db_tx.fee')):
        ctx.require(kt.get(k) == v, rq, 'transaction field %s is rebuilt from `%s`, expected %s' % (k, kt.get(k), v), calls['cls'])


@PROP.obligation('C08.import-version', canaries=[
    mut.drop_stmt(W, 'Wallet.transaction_import', 'rt.version_int = t.version_int', 'imported transaction keeps the default version number'),
])
def import_version(ctx):
    """Wallet.transaction_import (Transaction object): both representations of the version (bytes `version` and `version_int`, which is
    the one store() persists) are copied from the imported transaction."""
    q = W + ':Wallet.transaction_import'
    fn = ctx.repo.func(q)
    blocks = []
    for n in ast.walk(fn):
        body = getattr(n, 'body', None)
        if isinstance(body, list):
            vs = {unparse(s_.targets[0]): norm(s_.value) for s_ in body if isinstance(s_, ast.Assign) and unparse(s_.targets[0]).startswith('rt.version')}
            if vs:
                blocks.append((n, vs))
    if not blocks:
        ctx.undecided('transaction_import: version handling not found')
    for node, vs in blocks:
        ctx.saw('version fields copied on import: %s' % vs)
        ctx.require('rt.version' in vs and 'rt.version_int' in vs, q, 'only %s is copied from the imported transaction; store() persists version_int' % sorted(vs), node,
                    'an imported non-version-1 transaction is stored and reloaded as version 1: different id and serialization')
        if vs.get('rt.version') == 't.version':
            ctx.require(vs.get('rt.version_int') == 't.version_int', q, 'version_int is copied from `%s`' % vs.get('rt.version_int'), node)


@PROP.obligation('C08.loop-fresh')
def loop_fresh(ctx):
    """Ledger updates run in per-output / per-input / per-key loops (utxos_update, transactions_update, _balance_update, store, delete):
    in wallets.py no variable that is assigned only inside such a loop is read on a path of an iteration that did not assign it - the
    row, key or amount written for one item is never the one left over from the previous item."""
    from .common_loopfresh import loop_fresh as run
    run(ctx, [W], 'the spent flag / key / amount of one output is written with the data of the previous one')


@PROP.obligation('C08.key-order', canaries=[
    mut.replace_stmt('wallets', 'Wallet._new_key_multisig', 'public_key_ids = [str(x.key_id) for x in public_keys]', 'public_key_ids = sorted(str(x.key_id) for x in public_keys)', 'stored cosigner-key order follows the key ids, not the script'),
])
def key_order(ctx):
    """A stored multisig transaction is rebuilt (WalletTransaction.from_txid) from the cosigner keys of its address in STORED order
    (DbKeyMultisigChildren.key_order), without sorting. Wallet._new_key_multisig is evaluated as a whole for three cosigner keys given
    out of order: the key stored at position i is the key at position i of the redeem script it built, with and without sort_keys."""
    from .c10 import multisig_scenario
    pubs = {7: b'\x03' * 33, 5: b'\x02' * 33, 9: b'\x02' + b'\x01' * 32}
    q = 'wallets:Wallet._new_key_multisig'
    fn = ctx.repo.func(q)
    n = 0
    for sort_keys in (True, False):
        script, kids = multisig_scenario(ctx, sort_keys, [7, 5, 9], pubs, 2)
        keys = script.get('keys')
        if not isinstance(keys, list) or len(keys) != 3 or len(kids) != 3:
            ctx.undecided('_new_key_multisig scenario: script keys %s, %d stored children' % (show(keys)[:60], len(kids)))
        for row in kids:
            i, c = row.get('key_order'), row.get('child_id')
            if not isinstance(i, int) or c not in pubs:
                ctx.undecided('_new_key_multisig scenario: stored child row %s not decided' % {k: show(v)[:30] for k, v in row.items() if k != 'parent_id'})
            n += 1
            ctx.require(keys[i] == pubs[c], q, 'with sort_keys=%s the cosigner key stored at position %d is not the key at position %d of the redeem script' % (sort_keys, i, i), fn,
                        'a stored spend of that address reloads with a redeem script in another key order: another scriptSig / witness program hash, another serialization, and it no longer verifies')
        ctx.saw('sort_keys=%s: stored order %s matches the script' % (sort_keys, [(r.get('key_order'), r.get('child_id')) for r in kids]))
    ctx.floor(n, 6, 'stored cosigner keys')


def _const_test(test, env):
    """three-valued value of a test under the bindings ``env`` (None: depends on something else)"""
    if isinstance(test, ast.BoolOp):
        vals = [_const_test(v, env) for v in test.values]
        if isinstance(test.op, ast.And):
            return False if any(v is False for v in vals) else (True if all(v is True for v in vals) else None)
        return True if any(v is True for v in vals) else (False if all(v is False for v in vals) else None)
    if isinstance(test, ast.UnaryOp) and isinstance(test.op, ast.Not):
        v = _const_test(test.operand, env)
        return None if v is None else not v
    names = set(x.id for x in ast.walk(test) if isinstance(x, ast.Name))
    if not names <= set(env) | {'len', 'isinstance', 'list', 'dict', 'bool'} or any(isinstance(x, (ast.Call, ast.Attribute)) and not (isinstance(x, ast.Call) and isinstance(x.func, ast.Name) and x.func.id in ('len', 'isinstance', 'bool'))
                                                                              for x in ast.walk(test)):
        return None
    try:
        return bool(eval(compile(ast.Expression(test), '<guard>', 'eval'), {'__builtins__': {'len': len, 'isinstance': isinstance, 'list': list, 'dict': dict, 'bool': bool}}, dict(env)))
    except Exception:
        return None


@PROP.obligation('C08.snapshot-honoured', canaries=[
    mut.Canary('an empty snapshot is treated as "no snapshot": the provider is asked', W, lambda tree: _mut_snapshot(tree)),
])
def snapshot_honoured(ctx):
    """Wallet.utxos_update(utxos=[...]) books exactly the caller's snapshot of unspent outputs. An EMPTY snapshot is a snapshot (all outputs
    were spent elsewhere): every construction / call of a Service in the method is dominated by a test that is false for utxos == [] and
    true only for utxos is None - the providers are asked only when no snapshot was given."""
    q = W + ':Wallet.utxos_update'
    f = ctx.repo.func(q)
    if 'utxos' not in [a.arg for a in f.args.args]:
        ctx.undecided('Wallet.utxos_update has no utxos parameter any more')
    rd = ReachingDefs(f)
    g = rd.cfg
    srv_names = set(n.targets[0].id for n in ast.walk(f) if isinstance(n, ast.Assign) and isinstance(n.targets[0], ast.Name) and isinstance(n.value, ast.Call) and norm(n.value.func) == 'Service')
    sites = [c for c in ast.walk(f) if isinstance(c, ast.Call) and (norm(c.func) == 'Service' or (isinstance(c.func, ast.Attribute) and isinstance(c.func.value, ast.Name) and c.func.value.id in srv_names))]
    ctx.floor(len(sites), 2, 'Service constructions / calls in utxos_update')
    by_id = {n.id: n for n in g.nodes}
    for c in sites:
        nid = rd.node_of_ast(c)
        verdicts = {}
        for snap, label in (([], 'an empty snapshot'), ([{'txid': 'aa'}], 'a snapshot'), (None, 'no snapshot')):
            reach = True
            for tid, pol in guards_of(g, nid):
                t = by_id[tid].ast
                v = _const_test(getattr(t, 'test', t), {'utxos': snap})
                if v is not None and v != (pol == 'T'):
                    reach = False
            verdicts[label] = reach
        ctx.saw('%s reachable with %s' % (norm(c)[:50], [k for k, v in verdicts.items() if v]))
        for label in ('an empty snapshot', 'a snapshot'):
            ctx.require(not verdicts[label], q, '`%s` is reached although the caller supplied %s of unspent outputs (utxos=%s)' % (norm(c)[:60], label, '[]' if 'empty' in label else '[...]'), c,
                        'the wallet books what the provider reports instead of the snapshot: outputs the snapshot says are gone reappear, balance and key balances no longer equal the unspent outputs handed in')
        if not verdicts['no snapshot']:
            ctx.undecided('utxos_update: `%s` is not reachable without a snapshot either' % norm(c)[:60])


def _mut_snapshot(tree):
    r = mut.replace_expr(W, 'Wallet.utxos_update', 'utxos is None', 'not utxos').mutate(tree)
    return bool(r)


@PROP.obligation('C08.store-own-keys', canaries=[
    mut.replace_expr(W, 'WalletTransaction.store', 'sess.query(DbKey).filter_by(wallet_id=self.hdwallet.wallet_id, address=to.address)', 'sess.query(DbKey).filter_by(id=to.key_id) if getattr(to, "key_id", None) else sess.query(DbKey).filter_by(wallet_id=self.hdwallet.wallet_id, address=to.address)', 'output booked on the key id the object carries'),
    mut.replace_expr(W, 'WalletTransaction.store', 'sess.query(DbKey).filter_by(wallet_id=self.hdwallet.wallet_id, address=ti.address)', 'sess.query(DbKey).filter_by(address=ti.address)', 'input key looked up in every wallet of the database'),
])
def store_own_keys(ctx):
    """WalletTransaction.store books every input and output on a key of THIS wallet: each look-up of a DbKey row in the method selects by
    wallet_id = the wallet of the transaction (and the address of the item). A key id carried by an Output object comes from whichever
    wallet created the transaction (transaction_import reuses the objects): used as a primary-key look-up it books the change of a
    cosigner's transaction on a key row of another wallet."""
    q = W + ':WalletTransaction.store'
    fn = ctx.repo.func(q)
    n = 0
    for c in ast.walk(fn):
        if not (isinstance(c, ast.Call) and isinstance(c.func, ast.Attribute) and c.func.attr == 'query' and c.args and norm(c.args[0]) == 'DbKey'):
            continue
        # the chain this query() starts: walk up through .filter_by / .filter / .join ...
        chain = c
        parents = {}
        for x in ast.walk(fn):
            for y in ast.iter_child_nodes(x):
                parents[y] = x
        preds = []
        cur = c
        while True:
            p_ = parents.get(cur)
            if isinstance(p_, ast.Attribute) and isinstance(parents.get(p_), ast.Call) and parents[p_].func is p_:
                call = parents[p_]
                if p_.attr == 'filter_by':
                    preds += ['%s=%s' % (k.arg, norm(k.value)) for k in call.keywords]
                elif p_.attr == 'filter':
                    preds += [norm(a) for a in call.args]
                cur = call
                continue
            break
        n += 1
        scoped = any(pr.replace(' ', '') in ('wallet_id=self.hdwallet.wallet_id', 'DbKey.wallet_id==self.hdwallet.wallet_id') for pr in preds)
        ctx.saw('key look-up: %s -> %s' % (preds, 'own wallet' if scoped else 'NOT scoped to the wallet'))
        ctx.require(scoped, q, 'a key row is looked up by %s without `wallet_id = self.hdwallet.wallet_id`' % (preds or 'nothing'), c,
                    'a transaction created by one cosigner wallet and imported, signed and sent by another books its change on a key row of the first wallet: the per-key balances no longer add up to the balance')
    ctx.floor(n, 2, 'DbKey look-ups in store()')


def _clock_kind(e):
    """'utc' / 'local' / None for the clock an expression reads (datetime.utcnow(), datetime.now(timezone.utc) vs datetime.now() / today())"""
    kinds = set()
    for c in ast.walk(e):
        if not isinstance(c, ast.Call):
            continue
        f = norm(c.func)
        if f in ('datetime.utcnow', 'datetime.datetime.utcnow'):
            kinds.add('utc')
        elif f in ('datetime.now', 'datetime.datetime.now'):
            tz = c.args[0] if c.args else next((k.value for k in c.keywords if k.arg == 'tz'), None)
            kinds.add('utc' if tz is not None and 'utc' in norm(tz).lower() else ('local' if tz is None else 'other'))
        elif f in ('datetime.today', 'datetime.datetime.today', 'date.today', 'time.localtime'):
            kinds.add('local')
    if 'local' in kinds:
        return 'local'
    if kinds == {'utc'}:
        return 'utc'
    return None if not kinds else 'other'


@PROP.obligation('C08.utc-cutoff', canaries=[
    mut.replace_expr(W, 'Wallet.transactions_remove_unconfirmed', 'datetime.utcnow()', 'datetime.now()', 'age of unconfirmed transactions measured with the local clock'),
])
def utc_cutoff(ctx):
    """Stored transaction dates are naive UTC (provider timestamps, the column default). Wherever a wallet method compares a stored
    `.date` with a cutoff, the cutoff is computed from the UTC clock (datetime.utcnow() / datetime.now(timezone.utc)), not from the local
    one: east of Greenwich transactions_remove_unconfirmed(hours_old=1) would delete a payment broadcast seconds ago and free its inputs."""
    m = ctx.repo.mod(W)
    n = 0
    for qn, fn in sorted(m.functions.items()):
        rd = None
        for cmp_ in ast.walk(fn):
            if not isinstance(cmp_, ast.Compare):
                continue
            sides = [cmp_.left] + list(cmp_.comparators)
            if not any(isinstance(x, ast.Attribute) and x.attr == 'date' for x in sides):
                continue
            for other in sides:
                if isinstance(other, ast.Attribute) and other.attr == 'date':
                    continue
                kind = _clock_kind(other)
                src = norm(other)
                if kind is None and isinstance(other, ast.Name):
                    if rd is None:
                        rd = ReachingDefs(fn)
                    nid = rd.node_of_ast(cmp_)
                    vals = [d.value for d in rd.reaching(nid, other.id) if d.value is not None] if nid is not None else []
                    ks = set(_clock_kind(v) for v in vals)
                    ks.discard(None)
                    kind = 'local' if 'local' in ks else ('utc' if ks == {'utc'} else (None if not ks else 'other'))
                    src = ' / '.join(norm(v)[:60] for v in vals) or src
                if kind is None:
                    continue        # not a clock reading (a date handed in by the caller)
                n += 1
                ctx.saw('%s: stored date compared with `%s` (%s clock)' % (qn, src[:70], kind))
                if kind == 'local':
                    ctx.violate(W + ':' + qn, 'a stored (UTC) transaction date is compared with `%s`, which reads the LOCAL clock' % src[:80], cmp_,
                                'with a local time ahead of UTC, transactions_remove_unconfirmed(hours_old=1) deletes a payment broadcast seconds ago: its inputs are unspent again and are spent twice')
                elif kind == 'other':
                    ctx.unsure('%s: clock of `%s` not classified' % (qn, src[:60]))
    ctx.floor(n, 1, 'comparisons of stored dates with the clock')


@PROP.obligation('C08.reload-zero', canaries=[
    mut.replace_expr(W, 'WalletTransaction.from_txid', 'inp.sequence is not None', 'inp.sequence', 'a stored sequence of 0 reloads as the default'),
])
def reload_zero(ctx):
    """WalletTransaction.from_txid rebuilds a stored transaction from its rows. A numeric column whose value 0 is a value (sequence,
    output_n, value, locktime, index_n ... - ids start at 1 and are exempt) is taken over when it is not NULL, never only when it is
    truthy: `if inp.sequence: sequence = inp.sequence` reloads an input with sequence 0 as 0xffffffff - another serialization and id."""
    db = ctx.repo.mod('db')
    numeric = set()
    for cn, c in db.classes.items():
        for st in c.body:
            if isinstance(st, ast.Assign) and isinstance(st.value, ast.Call) and norm(st.value.func) == 'Column' and st.value.args and \
                    norm(st.value.args[0]).split('(')[0] in ('Integer', 'BigInteger', 'SmallInteger'):
                numeric |= set(t.id for t in st.targets if isinstance(t, ast.Name))
    numeric = set(x for x in numeric if not (x == 'id' or x.endswith('_id')))
    ctx.floor(len(numeric), 15, 'numeric columns')
    q = W + ':WalletTransaction.from_txid'
    fn = ctx.repo.func(q)
    n = 0
    for i_ in ast.walk(fn):
        if not isinstance(i_, ast.If):
            continue
        t = i_.test
        if not (isinstance(t, ast.Attribute) and t.attr in numeric):
            continue
        for a in ast.walk(ast.Module(body=i_.body, type_ignores=[])):
            if isinstance(a, ast.Assign) and any(norm(x) == norm(t) for x in ast.walk(a.value)):
                n += 1
                ctx.violate(q, '`%s` is taken over only when it is truthy (`if %s: %s`): a stored 0 is replaced by the default' % (norm(t), norm(t), norm(a)[:50]), i_,
                            'a transaction sent with an input sequence of 0 reloads with 0xffffffff: w.transaction(txid).raw_hex() differs from the stored raw transaction')
    def _col(x):
        return isinstance(x, ast.Attribute) and x.attr in numeric
    holders = {}
    for a in ast.walk(fn):
        if isinstance(a, ast.Assign) and len(a.targets) == 1 and isinstance(a.targets[0], ast.Name) and _col(a.value):
            holders[a.targets[0].id] = a.value
    for x in ast.walk(fn):
        col = None
        if isinstance(x, ast.BoolOp) and isinstance(x.op, ast.Or) and _col(x.values[0]):
            col, form = x.values[0], '`%s`' % norm(x)
        elif isinstance(x, ast.IfExp) and _col(x.test) and any(norm(y) == norm(x.test) for y in ast.walk(x.body)):
            col, form = x.test, '`%s`' % norm(x)
        elif isinstance(x, ast.IfExp) and isinstance(x.test, ast.UnaryOp) and isinstance(x.test.op, ast.Not) and _col(x.test.operand) and \
                any(norm(y) == norm(x.test.operand) for y in ast.walk(x.orelse)):
            col, form = x.test.operand, '`%s`' % norm(x)
        elif isinstance(x, ast.If) and isinstance(x.test, ast.UnaryOp) and isinstance(x.test.op, ast.Not):
            o = x.test.operand
            tgt = o.id if isinstance(o, ast.Name) and o.id in holders else None
            if tgt and any(isinstance(a, ast.Assign) and any(isinstance(t, ast.Name) and t.id == tgt for t in a.targets) for a in ast.walk(ast.Module(body=x.body, type_ignores=[]))):
                col, form = holders[tgt], '`if not %s: %s = ...`' % (tgt, tgt)
        if col is not None:
            n += 1
            ctx.violate(q, '`%s` is taken over only when it is truthy (%s): a stored 0 is replaced by the default' % (norm(col), form[:70]), x,
                        'a transaction sent with an input sequence of 0 reloads with 0xffffffff: w.transaction(txid).raw_hex() differs from the stored raw transaction')
    uses = sum(1 for x in ast.walk(fn) if isinstance(x, ast.Attribute) and x.attr in numeric and isinstance(x.ctx, ast.Load))
    ctx.saw('%d reads of numeric columns in from_txid, %d of them taken over under a truthiness test of the value itself' % (uses, n))
    ctx.floor(uses, 10, 'reads of numeric columns')


def _output_renumberers(methods):
    direct = set()
    for name, f in methods.items():
        for loop in ast.walk(f):
            if isinstance(loop, ast.For) and 'self.outputs' in norm(loop.iter):
                if any(isinstance(x, ast.Assign) and any(isinstance(t, ast.Attribute) and t.attr == 'output_n' for t in x.targets) for x in ast.walk(loop)):
                    direct.add(name)
    closure = set(direct)
    changed = True
    while changed:
        changed = False
        for name, f in methods.items():
            if name not in closure and any(isinstance(c, ast.Call) and isinstance(c.func, ast.Attribute) and norm(c.func.value) == 'self' and c.func.attr in closure for c in ast.walk(f)):
                closure.add(name)
                changed = True
    return direct, closure


@PROP.obligation('C08.outputs-numbered', canaries=[
    mut.drop_stmt(W, 'Wallet.transaction_create', 'o.output_n = len(transaction.outputs)', 'Output objects supplied by the caller keep output_n 0'),
    mut.drop_stmt('transactions', 'Transaction.shuffle_outputs', 'o.output_n = idx', 'shuffled outputs keep their old numbers'),
])
def outputs_numbered(ctx):
    """The wallet stores the outputs of a transaction it sent by `output_n` and lists them as unspent under (txid, output_n): the number an
    Output object carries must be its position. Every method of Transaction and the output loop of Wallet.transaction_create that adds,
    removes or reorders outputs numbers them on every path afterwards (a loop that assigns output_n, or a call of a method that does),
    or appends ONE Output whose number is set to the next position (add_output / `o.output_n = len(...)`)."""
    methods = {k: ctx.repo.func('transactions:Transaction.' + k) for k in ctx.repo.methods_of('transactions:Transaction')}
    direct, renum = _output_renumberers(methods)
    ctx.saw('methods that renumber the outputs: %s (directly: %s)' % (sorted(renum), sorted(direct)))
    if not direct:
        ctx.undecided('no method of Transaction assigns output_n to the elements of self.outputs')
    n = 0
    sites = [('transactions:Transaction.' + k, f, 'self.outputs') for k, f in sorted(methods.items()) if k != '__init__']
    sites.append((W + ':Wallet.transaction_create', ctx.repo.func(W + ':Wallet.transaction_create'), 'transaction.outputs'))
    for q, f, lst in sites:
        g = build_cfg(f)
        owner = lst.split('.')[0]
        muts = []
        for node in g.nodes:
            if node.ast is None:
                continue
            for y in ast.walk(node.ast):
                if isinstance(y, ast.AugAssign) and norm(y.target) == lst:
                    muts.append((node, y, '+='))
                elif isinstance(y, ast.Call) and isinstance(y.func, ast.Attribute) and norm(y.func.value) == lst and y.func.attr in ('append', 'extend', 'insert', 'sort', 'reverse', 'pop', 'remove', 'clear'):
                    muts.append((node, y, '.%s()' % y.func.attr))
                elif isinstance(y, ast.Call) and norm(y.func) in ('random.shuffle', 'shuffle') and y.args and norm(y.args[0]) == lst:
                    muts.append((node, y, 'shuffle'))
                elif isinstance(y, ast.Delete) and any(lst in norm(t) for t in y.targets):
                    muts.append((node, y, 'del'))
                elif isinstance(y, ast.Assign) and any(norm(t) == lst or (isinstance(t, ast.Subscript) and norm(t.value) == lst) for t in y.targets) and \
                        not (isinstance(y.value, ast.List) and not y.value.elts):
                    muts.append((node, y, 'assignment'))
        if not muts:
            continue
        renum_nodes = []
        for node in g.nodes:
            if node.ast is None:
                continue
            for y in ast.walk(node.ast):
                if isinstance(y, ast.Assign) and any(isinstance(t, ast.Attribute) and t.attr == 'output_n' for t in y.targets):
                    renum_nodes.append(node.id)
                if isinstance(y, ast.Call) and isinstance(y.func, ast.Attribute) and norm(y.func.value) == owner and y.func.attr in renum and not q.endswith('.' + y.func.attr):
                    renum_nodes.append(node.id)
        exits = [x.id for x in g.nodes if x.kind == 'return'] + [g.exit_return]
        for node, y, how in muts:
            n += 1
            if how == '.append()' and y.args:
                arg = y.args[0]
                if isinstance(arg, ast.Call) and norm(arg.func) == 'Output':
                    idx = {k.arg: k.value for k in arg.keywords}.get('output_n')
                    ok = idx is not None and any(isinstance(a2, ast.Assign) and norm(a2.targets[0]) == norm(idx) and norm(a2.value) == 'len(%s)' % lst for a2 in ast.walk(f))
                    ctx.saw('%s: appends one Output with output_n=%s' % (q.split(':')[1], norm(idx) if idx is not None else None))
                    ctx.require(ok, q, 'the appended Output is not numbered with the next position (output_n=%s)' % (norm(idx) if idx is not None else 'missing'), y)
                    continue
                if isinstance(arg, ast.Name):
                    numbered = any(isinstance(a2, ast.Assign) and any(norm(t) == '%s.output_n' % arg.id for t in a2.targets) and norm(a2.value) == 'len(%s)' % lst for a2 in ast.walk(f))
                    if numbered:
                        ctx.saw('%s: appends `%s` after numbering it with len(%s)' % (q.split(':')[1], arg.id, lst))
                        continue
            p_ = g.path_avoiding(exits, via=renum_nodes, start=node.id)
            if node.id in renum_nodes:
                p_ = None
            ctx.saw('%s: %s on %s, numbered afterwards on every path: %s' % (q.split(':')[1], how, lst, p_ is None))
            ctx.require(p_ is None, q, '%s is changed by %s and the method can return without numbering the outputs (%s)' % (lst, how, g.describe_path(p_) if p_ else ''), y,
                        'outputs carry a number that is not their position: the wallet stores two outputs under the same number (one is lost from the ledger) or lists an outpoint that does not exist on chain')
    ctx.floor(n, 5, 'changes of output lists')


@PROP.obligation('C08.account-zero', canaries=[
    mut.replace_expr(W, 'WalletTransaction.__init__', 'account_id is None', 'not account_id', 'account 0 is replaced by the default account of the wallet'),
])
def account_zero(ctx):
    """Account 0 is an account (the first one of BIP44), not "no account given". The statements of WalletTransaction.__init__ that settle the
    account are evaluated in a wallet whose default account is 5: account_id=0 stays 0, account_id=3 stays 3 and only account_id=None
    becomes 5. A transaction sent from account 0 that is booked under account 5 leaves balance(account_id=0) and utxos(account_id=0)
    empty while the keys of account 0 hold the change."""
    q = W + ':WalletTransaction.__init__'
    fn = ctx.repo.func(q)
    stop = [i for i, s_ in enumerate(fn.body) if any(isinstance(c, ast.Call) and norm(c.func) == 'Transaction.__init__' for c in ast.walk(s_))]
    if not stop:
        ctx.undecided('WalletTransaction.__init__: call of Transaction.__init__ not found')
    stmts = [s_ for s_ in fn.body[:stop[0]] if not isinstance(s_, ast.Assert) and any('account_id' in norm(x) for x in ast.walk(s_))]
    HW = ('var', 'hdwallet')
    n = 0
    for given, exp in ((0, 0), (3, 3), (None, 5)):
        it = Interp(ctx.repo, W, self_cls='wallets:WalletTransaction')
        st = State(env={'self': S(('var', 'self')), 'hdwallet': S(HW), 'account_id': given})
        st.heap[('attr', HW, 'default_account_id')] = 5
        st.heap[('attr', ('var', 'self'), 'hdwallet')] = S(HW)
        it.frames.append([])
        try:
            end = it.exec_block(stmts, st)
        except AnalysisError as e:
            ctx.undecided('WalletTransaction.__init__: account statements not evaluable: %s' % str(e)[:100])
        it.frames.pop()
        if end is None:
            ctx.undecided('WalletTransaction.__init__: account statements raise')
        got = end.heap.get(('attr', ('var', 'self'), 'account_id'))
        n += 1
        ctx.saw('WalletTransaction(wallet with default account 5, account_id=%r) -> self.account_id = %r' % (given, got if not isinstance(got, S) else show(term(got))))
        ctx.require(got == exp and not isinstance(got, bool), q, 'account_id=%r in a wallet whose default account is 5 gives self.account_id = %s, expected %r' % (given, got if not isinstance(got, S) else show(term(got)), exp), stmts[-1],
                    'send_to(addr, amount, account_id=0) books the transaction and its change under account 5: balance(account_id=0) is 0 and the change is listed for an account that does not own the key')
    ctx.floor(n, 3, 'account scenarios')


@PROP.obligation('C08.bulk-changes-own-rows', canaries=[
    mut.replace_expr(W, 'WalletTransaction.delete', 'session.query(DbTransaction).filter_by(txid=txid, wallet_id=self.hdwallet.wallet_id)', 'session.query(DbTransaction).filter_by(txid=txid)', 'a transaction is deleted by txid in every wallet of the database'),
    mut.replace_expr(W, 'WalletTransaction.delete', 'session.query(DbKey).filter_by(latest_txid=txid, wallet_id=self.hdwallet.wallet_id)', 'session.query(DbKey).filter_by(latest_txid=txid)', 'keys of other wallets are reset'),
])
def bulk_changes_own_rows(ctx):
    """Several wallets share one database, and a transaction between two of them is stored once per wallet under the same txid. Every
    query of wallets.py on DbTransaction or DbKey (the tables with a wallet_id column) that ends in a bulk .delete() / .update() -
    directly or through the local variable that holds the query - selects by wallet_id or by primary key. A query by txid alone
    deletes (or, with .scalar(), refuses to find) the rows of the other wallet: its balance no longer equals its unspent outputs."""
    mod = ctx.repo.mod('wallets')
    n = 0
    for name, fn in sorted(mod.functions.items()):
        q = 'wallets:' + name
        roots = {}
        for a in walk_no_nested(fn):
            if isinstance(a, ast.Assign) and len(a.targets) == 1 and isinstance(a.targets[0], ast.Name):
                qs = parse_chain(a.value)
                if qs is not None and (qs.models or qs.base_name):
                    roots.setdefault(a.targets[0].id, []).append(qs)

        def resolve(qs, depth=0):
            """[(models, predicate texts)] for every way the chain can be rooted"""
            preds = list(qs.filters) + ['%s=%s' % kv for kv in qs.filter_by.items()]
            if qs.models:
                return [(qs.models, preds)]
            out = []
            if depth < 4:
                for r in roots.get(qs.base_name, []):
                    if r is qs:
                        continue
                    for models, p2 in resolve(r, depth + 1):
                        out.append((models, p2 + preds))
            return out
        for x in queries_in(fn):
            if x.terminal not in ('delete', 'update'):
                continue
            for models, preds in resolve(x):
                if not models or models[0] not in ('DbTransaction', 'DbKey'):
                    continue
                n += 1
                txt = ' '.join(preds)
                scoped = 'wallet_id' in txt or any(p.startswith('id=') or '.id ==' in p or '.id.in_' in p for p in preds)
                ctx.saw('%s: %s rows are changed by .%s() selected by [%s]' % (name, models[0], x.terminal, txt[:80]))
                ctx.require(scoped, q, 'a bulk .%s() on %s selects its rows by `%s`: neither the wallet nor a primary key' % (x.terminal, models[0], txt[:80]), x.node,
                            'with two wallets of one database holding the same transaction, transaction_delete in one raises MultipleResultsFound or removes / resets the rows of the other wallet')
    ctx.floor(n, 4, 'bulk changes of wallet tables')


from . import c09 as _c09
PROP.obligation('C08.scope-forwarding')(_c09.scope_forwarding)


@PROP.obligation('C08.delete-keeps-spent', canaries=[
    mut.replace_expr(W, 'WalletTransaction.delete', 'DbTransactionInput.transaction_id != tx.id', 'DbTransactionInput.transaction_id == tx.id', 'the "spent elsewhere" test of delete() finds the inputs of the deleted transaction itself'),
    mut.replace_expr(W, 'WalletTransaction.delete', 'not spent_elsewhere', 'True', 'outputs spent by a deleted transaction are always unspent again'),
    mut.replace_expr(W, 'WalletTransaction.delete', 'DbTransactionInput.output_n == inp.output_n', 'DbTransactionInput.output_n == inp.index_n', 'the other spend is looked up by the position of the input instead of the output number'),
])
def delete_keeps_spent(ctx):
    """"An output consumed by a transaction the wallet has sent is never listed as unspent or selected again": WalletTransaction.delete
    gives the outputs its inputs had consumed back (spent = False) only when no OTHER stored transaction of the wallet spends the same
    outpoint - the replacement of a fee-bumped transaction, for one. The assignment `.spent = False` in delete() is guarded by a query on
    DbTransactionInput that selects by the outpoint (prev_txid and output_n) and EXCLUDES the inputs of the transaction being deleted
    (transaction_id != its id); a test that finds the deleted transaction's own inputs is always true."""
    q = W + ':WalletTransaction.delete'
    fn = ctx.repo.func(q)
    g = build_cfg(fn)
    resets = [nd for nd in g.nodes if nd.ast is not None and isinstance(nd.ast, ast.Assign) and any(isinstance(t, ast.Attribute) and t.attr == 'spent' for t in nd.ast.targets) and
              isinstance(nd.ast.value, ast.Constant) and nd.ast.value.value is False]
    if not resets:
        ctx.undecided('WalletTransaction.delete: no assignment `.spent = False` found')
    queries = {}
    for a in walk_no_nested(fn):
        if isinstance(a, ast.Assign) and len(a.targets) == 1 and isinstance(a.targets[0], ast.Name):
            qs = parse_chain(a.value)
            if qs is not None and qs.models:
                queries[a.targets[0].id] = qs
    n = 0
    for nd in resets:
        n += 1
        ok = False
        seen_guards = []
        for t, pol in guards_of(g, nd.id):
            test = g[t].ast
            seen_guards.append(norm(test)[:60])
            cands = []
            for x in ast.walk(test):
                if isinstance(x, ast.Name) and x.id in queries:
                    cands.append((queries[x.id], pol == 'F' or (isinstance(test, ast.UnaryOp) and isinstance(test.op, ast.Not) and pol == 'T')))
                if isinstance(x, ast.Call):
                    qs = parse_chain(x)
                    if qs is not None and qs.models:
                        cands.append((qs, pol == 'F'))
            for qs, negated in cands:
                preds = ' '.join(qs.filters) + ' ' + ' '.join('%s=%s' % kv for kv in qs.filter_by.items())
                same_outpoint = any(p_.replace(' ', '').endswith('.prev_txid') and 'DbTransactionInput.prev_txid==' in p_.replace(' ', '') for p_ in qs.filters) and \
                    any('DbTransactionInput.output_n==' in p_.replace(' ', '') and p_.replace(' ', '').endswith('.output_n') for p_ in qs.filters)
                if 'DbTransactionInput' in ' '.join(qs.models) and same_outpoint and 'transaction_id !=' in preds and negated:
                    ok = True
        ctx.saw('`%s` is guarded by %s; guarded by "no other input spends this outpoint": %s' % (norm(nd.ast), seen_guards, ok))
        ctx.require(ok, q, '`%s` is not guarded by a query for ANOTHER input of the wallet that spends the same outpoint (prev_txid, output_n, transaction_id != the deleted one)' % norm(nd.ast), nd.ast,
                    'a fee-bumped transaction and its replacement are both stored; deleting the old one lists their common input as unspent again although the replacement spends it: it is selected for the next payment')
    ctx.floor(n, 1, 'spent flags reset by delete()')


@PROP.obligation('C08.update-default-account', canaries=[
    mut.replace_expr(W, 'Wallet.utxos_update', 'self._get_account_defaults(None, account_id, key_id)', "self._get_account_defaults('', account_id, key_id)", 'received outputs are booked under account 0 whatever the default account is'),
])
def update_default_account(ctx):
    """Wallet._get_account_defaults(network, account_id) turns "no account given" into the wallet's default account only when the network
    is the wallet's own (or None). Every call of it in wallets.py passes a network VARIABLE or None - never a constant such as '' -
    so that a wallet created with account_id=5 books what utxos_update / utxo_add receive under account 5: booked under account 0 the
    reported balance is 0 while the key of account 5 holds the amount."""
    mod = ctx.repo.mod('wallets')
    n = 0
    for name, fn in sorted(mod.functions.items()):
        for c in walk_no_nested(fn):
            if isinstance(c, ast.Call) and isinstance(c.func, ast.Attribute) and c.func.attr == '_get_account_defaults':
                n += 1
                net = c.args[0] if c.args else next((k.value for k in c.keywords if k.arg == 'network'), None)
                ok = net is None or not isinstance(net, ast.Constant) or net.value is None
                ctx.saw('%s: _get_account_defaults(network=%s, ...)' % (name, norm(net) if net is not None else 'default'))
                ctx.require(ok, 'wallets:' + name, '`%s` resolves the account for the constant network %s: the default-account rule does not apply to it' % (norm(c)[:60], norm(net) if net is not None else ''), c,
                            'Wallet.create(..., account_id=5); utxo_add(...): balance() is 0 and utxos() empty, utxos(account_id=0) lists the output of a key of account 5')
    ctx.floor(n, 10, 'calls of _get_account_defaults')


from . import c10 as _c10
PROP.obligation('C08.import-fields')(_c10.import_fields)
