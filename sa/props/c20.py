"""C20 Service layer fail-over: path structure of _provider_execute, False-to-error conversion, cache writer/reader map."""
import ast

from ..core import Property, AnalysisError, unparse, norm, walk_no_nested
from ..sym import Interp, S, term, show, subterms, State
from ..cfg import build_cfg
from ..dfa import guards_of, ReachingDefs
from .. import intv, mut

PROP = Property(
    'C20', 'Provider fail-over: what can be returned, which exits exist after a failure, errors instead of partial data, cache map',
    'Static (this code is not executed offline at all): the value returned by Service._provider_execute derives only from '
    'self.results, which is only updated with the direct return value of the provider call of the same iteration and never '
    'when that value is False; from the exception handler the only exits are the next provider or the error-limit return '
    '(a provider result if any, else False); no answer at all raises ServiceError; providers are visited in descending '
    'priority and at most max_providers answer; the query methods turn the False of _provider_execute into ServiceError '
    'instead of continuing with partial data; the cache reader uses only columns the cache writer fills, and both fee bucket '
    'tables agree. Real time-outs and equality of cached objects are NOT decided.',
    ['provider client classes return False for an empty answer', 'SQLAlchemy filter_by semantics'])

SELF = ('var', 'self')
A = lambda b, n: ('attr', b, n)
SVC = 'services.services'


def _const(node, v):
    return isinstance(node, ast.Constant) and node.value is v


@PROP.obligation('C20.provenance', canaries=[
    mut.replace_expr(SVC, 'Service._provider_execute', '{sp: res}', '{sp: res or {}}', 'an empty answer is replaced by a constructed value'),
    mut.replace_stmt(SVC, 'Service._provider_execute', 'return False', 'return {}', 'error limit returns a constructed empty answer'),
    mut.replace_expr(SVC, 'Service._provider_execute', 'list(self.results.values())[0]', 'list(self.results.values())[-1]', 'last instead of first answer', nth=1) if False else
    mut.replace_stmt(SVC, 'Service._provider_execute', 'res = providermethod(*arguments)', 'res = providermethod(*arguments) or self.results.get(sp)', 'stale result of an earlier query reused'),
])
def provenance(ctx):
    """_provider_execute returns list(self.results.values())[0] or the constant False, nothing else; self.results is only updated
    with {provider: res} where res is the direct return value of the provider method called in this iteration."""
    q = SVC + ':Service._provider_execute'
    fn = ctx.repo.func(q)
    rets = [n for n in walk_no_nested(fn) if isinstance(n, ast.Return)]
    ctx.floor(len(rets), 2, 'return statements')
    for r in rets:
        v = norm(r.value) if r.value is not None else 'None'
        ctx.saw('return %s' % v)
        ok = v == 'list(self.results.values())[0]' or _const(r.value, False)
        ctx.require(ok, q, 'returns `%s`; only a provider answer (list(self.results.values())[0]) or False may be returned' % v, r,
                    'the query yields data that no provider returned')
    ups = [c for c in ast.walk(fn) if isinstance(c, ast.Call) and unparse(c.func) == 'self.results.update']
    ctx.floor(len(ups), 1, 'updates of self.results')
    rd = ReachingDefs(fn)
    for u in ups:
        arg = u.args[0] if u.args else None
        ok = isinstance(arg, ast.Dict) and len(arg.keys) == 1 and isinstance(arg.values[0], ast.Name)
        ctx.saw('self.results.update(%s)' % (unparse(arg) if arg is not None else ''))
        if not ok:
            ctx.violate(q, 'self.results is updated with `%s`, expected {provider: <provider return value>}' % (unparse(arg) if arg is not None else ''), u,
                        'the stored answer is not what the provider returned')
            continue
        name = arg.values[0].id
        nid = rd.node_of_ast(u)
        defs = rd.reaching(nid, name)
        srcs = [norm(d.value) for d in defs if d.value is not None]
        ctx.saw('  %s <- %s' % (name, srcs))
        ctx.require(len(defs) == 1 and srcs and srcs[0] == 'providermethod(*arguments)', q, 'the value stored as answer derives from %s, expected only the provider call of this iteration' % srcs, u,
                    'answers of other providers / earlier queries / constructed values are served')
    resets = [c for c in ast.walk(fn) if isinstance(c, ast.Call) and unparse(c.func) == 'self._reset_results']
    ctx.require(bool(resets), q, 'results of a previous query are not reset at the start', fn, 'a failing query can return the answer to an earlier one')


@PROP.obligation('C20.empty-skip', canaries=[
    mut.replace_expr(SVC, 'Service._provider_execute', 'res is False', 'not res and (not isinstance(res, (int, list)))', 'False no longer recognised as empty answer (bool is an int)'),
    mut.replace_expr(SVC, 'Service._provider_execute', 'res is False', 'res is None', 'only None is skipped'),
])
def empty_skip(ctx):
    """The update of self.results is unreachable when the provider answered False: the guarding test is true for res = False (decided
    by evaluating the test), and that branch records an error and continues with the next provider."""
    q = SVC + ':Service._provider_execute'
    fn = ctx.repo.func(q)
    g = build_cfg(fn)
    ups = [n.id for n in g.nodes if n.ast is not None and n.kind == 'stmt' and 'self.results.update' in unparse(n.ast)]
    if not ups:
        ctx.undecided('results update not found')
    guard_ifs = [n for n in walk_no_nested(fn) if isinstance(n, ast.If) and any(isinstance(x, ast.Name) and x.id == 'res' for x in ast.walk(n.test))]
    if not guard_ifs:
        ctx.violate(q, 'the provider answer is stored without any test for an empty (False) answer', fn, 'a provider that answers False ends the fail-over with False as the result')
        return
    gi = guard_ifs[0]
    it = Interp(ctx.repo, SVC)
    for val, must_skip in ((False, True), ({'txid': 'x'}, False), ([], False), (0, False), (12345, False)):
        st = State(env={'res': val if not isinstance(val, (dict, list)) else (dict(val) if isinstance(val, dict) else list(val))})
        t = it.truth(it.eval(gi.test, st), st)
        ctx.saw('answer %r -> test `%s` is %s' % (val, norm(gi.test), t if isinstance(t, bool) else show(t)))
        if not isinstance(t, bool):
            ctx.undecided('empty-answer test not decidable for %r' % (val,))
        if must_skip and not t:
            ctx.violate(q, 'for the answer False the test `%s` is false: the answer is stored as a result' % norm(gi.test), gi,
                        'an empty answer stops the fail-over and is returned to the caller instead of asking the next provider')
        if not must_skip and t:
            ctx.violate(q, 'the legitimate answer %r is treated as empty by `%s`' % (val, norm(gi.test)), gi)
    # the skip branch continues with the next provider and records the error
    body = gi.body
    ctx.require(any(isinstance(s, ast.Continue) for s in body), q, 'the empty-answer branch does not continue with the next provider', gi)
    ctx.require(any('self.errors.update' in unparse(s) for s in body), q, 'the empty-answer branch does not record an error', gi)
    # and the update is only reachable through the false edge of that test
    tnodes = [n for n in g.nodes if n.kind == 'test' and n.ast is not None and any(n.ast is x for x in ast.walk(gi.test))]
    for u in ups:
        gs = guards_of(g, u)
        ok = any(t in [x.id for x in tnodes] for t, pol in gs)
        ctx.require(ok, q, 'the results update is reachable without passing the empty-answer test', g[u].ast)


@PROP.obligation('C20.raise-skip', canaries=[
    mut.replace_stmt(SVC, 'Service._provider_execute', 'return False', 'return self.results', 'error limit returns the results dictionary'),
    mut.replace_expr(SVC, 'Service._provider_execute', 'len(self.errors) >= self.max_errors', 'len(self.errors) >= 1', 'first error aborts the fail-over'),
])
def raise_skip(ctx):
    """From the exception handler of the provider call the only exits are: fall through to the next provider, or the return guarded
    by len(self.errors) >= self.max_errors, which yields a provider answer if one exists and False otherwise."""
    q = SVC + ':Service._provider_execute'
    fn = ctx.repo.func(q)
    g = build_cfg(fn)
    hs = [n for n in g.nodes if n.kind == 'handler']
    main = [h for h in hs if h.ast.type is not None and unparse(h.ast.type) == 'Exception']
    if len(main) != 1:
        ctx.undecided('exception handler of the provider call not found')
    h = main[0]
    head = [n.id for n in g.nodes if n.kind == 'for']
    seen = g.reach([h.id], blocked_nodes=head)
    inside = set(id(x) for x in ast.walk(h.ast))
    rets = [g[i] for i in seen if g[i].kind == 'return' and id(g[i].ast) in inside]
    raises = [g[i] for i in seen if g[i].kind == 'raise' and i != h.id and isinstance(g[i].ast, ast.Raise) and id(g[i].ast) in inside]
    ctx.saw('handler exits: %d returns, %d raises, next iteration reachable: %s' % (len(rets), len(raises), any(x in g.reach([h.id]) for x in head)))
    ctx.require(any(x in g.reach([h.id]) for x in head), q, 'after an exception the next provider is not tried', h.ast)
    ctx.require(not raises, q, 'the handler re-raises: one failing provider fails the whole query', h.ast)
    for r in rets:
        gs = [(norm(g[t].ast), pol) for t, pol in guards_of(g, r.id)]
        lim = [x for x in gs if x[0] == 'len(self.errors) >= self.max_errors' and x[1] == 'T']
        ctx.saw('handler return `%s` guarded by %s' % (norm(r.ast.value), [x for x in gs if 'errors' in x[0] or 'results' in x[0]]))
        ctx.require(bool(lim), q, 'return `%s` in the handler is not guarded by len(self.errors) >= self.max_errors' % norm(r.ast.value), r.ast,
                    'the fail-over is abandoned before the error limit')
        v = norm(r.ast.value)
        if v == 'list(self.results.values())[0]':
            ctx.require(any(x[0] == 'len(self.results)' and x[1] == 'T' for x in gs), q, 'an answer is returned without checking that one exists', r.ast)
        elif not _const(r.ast.value, False):
            ctx.violate(q, 'the error-limit exit returns `%s`' % v, r.ast, 'invented data is returned when providers fail')


@PROP.obligation('C20.none-answered', canaries=[
    mut.drop_stmt(SVC, 'Service._provider_execute', 'if not self.resultcount', 'no answer at all is not an error'),
    mut.const(SVC, 'Service._provider_execute', True, False, 'lowest priority first', nth=0),
])
def none_answered(ctx):
    """After the loop, resultcount == 0 raises ServiceError before the final return; the loop stops once resultcount >= max_providers;
    providers are ordered by descending priority."""
    q = SVC + ':Service._provider_execute'
    fn = ctx.repo.func(q)
    g = build_cfg(fn)
    finals = [n for n in g.nodes if n.kind == 'return' and not any(g[t].kind == 'handler' for t in g.reach([h.id for h in g.nodes if h.kind == 'handler']) if t == n.id)]
    head = [n.id for n in g.nodes if n.kind == 'for']
    done = [s for s, l in g[head[0]].succ if l == 'done'] if head else []
    last = [n for n in g.nodes if n.kind == 'return' and n.id in g.reach(done, blocked_nodes=head)] if done else []
    ctx.saw('returns after the loop: %s' % [norm(n.ast.value) for n in last])
    for r in last:
        gs = [(norm(g[t].ast), pol) for t, pol in guards_of(g, r.id)]
        ok = any(x[0] == 'self.resultcount' and x[1] == 'T' for x in gs)
        ctx.require(ok, q, 'the final return is reachable with resultcount == 0 (guards %s)' % [x for x in gs if 'resultcount' in x[0]], r.ast,
                    'when no provider answers the query returns instead of failing')
    rz = [n for n in g.nodes if n.kind == 'raise' and n.ast is not None and isinstance(n.ast, ast.Raise) and 'ServiceError' in unparse(n.ast)]
    ctx.require(bool(rz), q, 'no ServiceError is raised when no provider answered', fn)
    brk = [n for n in walk_no_nested(fn) if isinstance(n, ast.If) and any(isinstance(s, ast.Break) for s in n.body)]
    ctx.saw('loop break conditions: %s' % [norm(b.test) for b in brk])
    ctx.require(any(norm(b.test) == 'self.resultcount >= self.max_providers' for b in brk), q, 'the loop does not stop when resultcount >= max_providers', fn,
                'more providers than requested are queried / compared')
    srt = [c for c in ast.walk(fn) if isinstance(c, ast.Call) and unparse(c.func) == 'sorted']
    ok = False
    for c in srt:
        kw = {k.arg: k.value for k in c.keywords}
        if 'priority' in unparse(c) and _const(kw.get('reverse'), True):
            ok = True
    ctx.saw('provider ordering: %s' % [norm(c)[:120] for c in srt])
    ctx.require(ok, q, 'providers are not sorted by descending priority', fn, 'the preferred provider is not asked first')


@PROP.obligation('C20.false-to-error', canaries=[
    mut.replace_stmt(SVC, 'Service.gettransactions', 'if txs is False:', 'if txs is False:\n    if not txs_cache:\n        raise ServiceError("Error when retrieving transactions from service provider")\n    txs = []', 'gettransactions continues with the cached part only'),
    mut.replace_expr(SVC, 'Service.getutxos', 'utxos is False', 'utxos is None', 'getutxos does not recognise the failure value'),
])
def false_to_error(ctx):
    """getutxos, gettransactions and getbalance: when _provider_execute returns False (error limit reached) every path raises
    ServiceError; none continues to a return with partial / cached-only data."""
    for meth, var in (('getutxos', 'utxos'), ('gettransactions', 'txs'), ('getbalance', 'balance')):
        q = SVC + ':Service.' + meth
        fn = ctx.repo.func(q)
        g = build_cfg(fn)
        calls = [n for n in g.nodes if n.kind == 'stmt' and isinstance(n.ast, ast.Assign) and unparse(n.ast.targets[0]) == var and '_provider_execute' in unparse(n.ast.value)]
        if len(calls) != 1:
            ctx.undecided('%s: assignment from _provider_execute not found' % meth)
        tests = [n for n in g.nodes if n.kind == 'test' and norm(n.ast) == '%s is False' % var]
        ctx.saw('%s: tests of the failure value: %s' % (meth, [norm(t.ast) for t in tests]))
        if not tests:
            ctx.violate(q, 'the result of _provider_execute is not compared with False: on the error-limit path the method goes on with partial data', calls[0].ast,
                        'a failed query returns a partial / empty answer instead of an error')
            continue
        for t in tests:
            succ_t = [s for s, l in t.succ if l == 'T']
            seen = g.reach(succ_t)
            rets = [g[i] for i in seen if g[i].kind == 'return' or i == g.exit_return]
            raises_only = not rets
            ctx.saw('%s: after `%s` only raises are reachable: %s' % (meth, norm(t.ast), raises_only))
            if not raises_only:
                ctx.violate(q, 'after `%s is False` a normal return is still reachable' % var, t.ast,
                            'when the error limit is reached the method returns partial (e.g. cached-only) data and may mark it complete')
        # the test must directly follow the call (no use of the value in between)
        p = g.path_avoiding([n.id for n in g.nodes if n.kind == 'return'], via=[t.id for t in tests], start=calls[0].id)
        ctx.require(p is None, q, 'a return is reachable from the provider call without testing the failure value: %s' % (g.describe_path(p) if p else ''), calls[0].ast)


def _fee_table(ctx, q):
    fn = ctx.repo.func(q)
    chain = None
    for n in walk_no_nested(fn):
        if isinstance(n, ast.If) and 'blocks' in unparse(n.test) and any(isinstance(s, ast.Assign) and unparse(s.targets[0]) == 'varname' for s in n.body):
            chain = n
            break
    if chain is None:
        ctx.undecided('%s: bucket selection on `blocks` not found' % q)
    it = Interp(ctx.repo, SVC)
    B = ('var', 'blocks')
    st = State(env={'blocks': S(B, 'int')})
    it.frames.append([])
    end = it.exec_if(chain, st)
    tree = term(end.env['varname'])
    return [(a, b, leaf) for a, b, leaf in intv.partition(tree, B, 0, 1000)]


@PROP.obligation('C20.fee-buckets', canaries=[
    mut.cmpop(SVC, 'Cache.estimatefee', 'blocks <= 5', ast.Lt, 'cache reader: 5 blocks falls into the low bucket'),
    mut.const(SVC, 'Cache.store_estimated_fee', 1, 2, 'cache writer: 2 blocks stored as high'),
])
def fee_buckets(ctx):
    """Cache.estimatefee and Cache.store_estimated_fee map the confirmation target to the same variable through identical thresholds."""
    r = _fee_table(ctx, SVC + ':Cache.estimatefee')
    w = _fee_table(ctx, SVC + ':Cache.store_estimated_fee')
    ctx.saw('reader buckets: %s' % r)
    ctx.saw('writer buckets: %s' % w)
    if r != w:
        ctx.violate(SVC + ':Cache.estimatefee', 'fee buckets read %s but written %s' % (r, w), ctx.repo.func(SVC + ':Cache.estimatefee'),
                    'a cached estimate is served for a different confirmation target than it was stored for')


@PROP.obligation('C20.cache-map', canaries=[
    mut.replace_expr(SVC, 'Cache.store_transaction', 'i.output_n_int', 'i.index_n', 'cache writer stores the input position as outpoint index'),
    mut.replace_expr(SVC, 'Cache.gettransaction', 'self.session.query(DbCacheTransaction).filter_by(txid=txid, network_name=self.network.name)', 'self.session.query(DbCacheTransaction).filter_by(txid=txid)', 'cache lookup ignores the network'),
])
def cache_map(ctx):
    """Every column Cache._parse_db_transaction reads is written by Cache.store_transaction from the corresponding attribute
    (ref_txid<->prev_txid, ref_index_n<->output_n_int, script, sequence, value, witnesses, index_n, address; outputs value, address,
    script, spent, index_n, spending_*); gettransaction / getrawtransaction look rows up by (txid, network_name)."""
    repo = ctx.repo
    wq = SVC + ':Cache.store_transaction'
    wf = repo.func(wq)
    written = {}
    for c in ast.walk(wf):
        if isinstance(c, ast.Call) and unparse(c.func) in ('DbCacheTransaction', 'DbCacheTransactionNode'):
            kind = unparse(c.func)
            kw = {k.arg: norm(k.value) for k in c.keywords}
            key = kind if kind == 'DbCacheTransaction' else (kind + (':in' if kw.get('is_input') == 'True' else ':out'))
            written[key] = kw
    ctx.saw('writer rows: %s' % {k: sorted(v) for k, v in written.items()})
    if set(written) != {'DbCacheTransaction', 'DbCacheTransactionNode:in', 'DbCacheTransactionNode:out'}:
        ctx.undecided('store_transaction: row constructions not recognised')
    rq = SVC + ':Cache._parse_db_transaction'
    rf = repo.func(rq)
    read_tx = sorted(set(n.attr for n in ast.walk(rf) if isinstance(n, ast.Attribute) and isinstance(n.value, ast.Name) and n.value.id == 'db_tx') - {'nodes'})
    read_node = sorted(set(n.attr for n in ast.walk(rf) if isinstance(n, ast.Attribute) and isinstance(n.value, ast.Name) and n.value.id == 'n'))
    ctx.saw('reader uses tx columns %s, node columns %s' % (read_tx, read_node))
    for col in read_tx:
        if col in ('txid',):
            continue
        ctx.require(col in written['DbCacheTransaction'], rq, 'reads transaction column %s which store_transaction never writes' % col, rf,
                    'cached transactions come back with a default instead of the stored value')
    both = set(written['DbCacheTransactionNode:in']) | set(written['DbCacheTransactionNode:out'])
    for col in read_node:
        ctx.require(col in both, rq, 'reads node column %s which store_transaction never writes' % col, rf)
    want_in = {'ref_txid': 'i.prev_txid', 'ref_index_n': 'i.output_n_int', 'script': 'i.unlocking_script', 'sequence': 'i.sequence', 'value': 'i.value',
               'index_n': 'i.index_n', 'address': 'i.address'}
    for col, src in want_in.items():
        got = written['DbCacheTransactionNode:in'].get(col)
        ctx.require(got == src, wq, 'input column %s is written from `%s`, the reader interprets it as %s' % (col, got, src), wf,
                    'a transaction served from the cache differs from the one that was stored')
    want_out = {'value': 'o.value', 'address': 'o.address', 'script': 'o.lock_script', 'spent': 'o.spent', 'index_n': 'o.output_n', 'ref_index_n': 'o.spending_index_n'}
    for col, src in want_out.items():
        got = written['DbCacheTransactionNode:out'].get(col)
        ctx.require(got == src, wq, 'output column %s is written from `%s`, the reader interprets it as %s' % (col, got, src), wf)
    # reader side: how columns are passed on
    calls = {unparse(c.func): c for c in ast.walk(rf) if isinstance(c, ast.Call) and unparse(c.func) in ('t.add_input', 't.add_output')}
    if set(calls) != {'t.add_input', 't.add_output'}:
        ctx.undecided('_parse_db_transaction: add_input/add_output calls not found')
    ai = calls['t.add_input']
    pos = [norm(a) for a in ai.args]
    kw = {k.arg: norm(k.value) for k in ai.keywords}
    ctx.saw('reader add_input(%s, %s)' % (pos, kw))
    ctx.require(pos[:2] == ['n.ref_txid.hex()', 'n.ref_index_n'], rq, 'input outpoint rebuilt from %s' % pos[:2], ai)
    for k, v in (('unlocking_script', 'n.script'), ('sequence', 'n.sequence'), ('value', 'n.value'), ('index_n', 'n.index_n'), ('witnesses', 'n.witnesses')):
        ctx.require(kw.get(k) == v, rq, 'input field %s rebuilt from `%s`, expected %s' % (k, kw.get(k), v), ai)
    ao = calls['t.add_output']
    pos = [norm(a) for a in ao.args]
    kw = {k.arg: norm(k.value) for k in ao.keywords}
    ctx.require(pos[:2] == ['n.value', 'n.address'] and kw.get('lock_script') == 'n.script' and kw.get('output_n') == 'n.index_n' and kw.get('spent') == 'n.spent', rq,
                'output rebuilt from %s %s' % (pos, kw), ao)
    for meth in ('gettransaction', 'getrawtransaction'):
        q = SVC + ':Cache.' + meth
        fn = repo.func(q)
        fb = [c for c in ast.walk(fn) if isinstance(c, ast.Call) and isinstance(c.func, ast.Attribute) and c.func.attr == 'filter_by']
        kws = [sorted(k.arg for k in c.keywords) for c in fb]
        ctx.saw('%s filter_by%s' % (meth, kws))
        ctx.require(any(k == ['network_name', 'txid'] for k in kws), q, 'cache lookup filters on %s, expected (txid, network_name)' % kws, fn,
                    'a transaction of another network with the same id is served')


@PROP.obligation('C20.cache-complete', canaries=[
    mut.replace_expr(SVC, 'Cache.store_transaction', 'not t.date or not t.block_height or (not t.network)', 'not t.date or (not t.network)', 'unconfirmed transactions are cached'),
])
def cache_complete(ctx):
    """Cache.store_transaction refuses transactions without txid, date, block height or network, and non-coinbase transactions with a
    zero-value input, before the transaction row is added to the session."""
    q = SVC + ':Cache.store_transaction'
    fn = ctx.repo.func(q)
    g = build_cfg(fn)
    adds = [n.id for n in g.nodes if n.ast is not None and n.kind == 'stmt' and 'self.session.add(new_tx)' in unparse(n.ast)]
    if len(adds) != 1:
        ctx.undecided('store_transaction: session.add(new_tx) not found')
    gs = [(norm(g[t].ast), pol) for t, pol in guards_of(g, adds[0])]
    ctx.saw('session.add(new_tx) guarded by %s' % gs)
    need = ['t.txid', 't.date', 't.block_height', 't.network']
    for nme in need:
        ctx.require(any(x[0] == nme and x[1] == 'T' for x in gs), q, 'a transaction without %s can be added to the cache' % nme, g[adds[0]].ast,
                    'incomplete transactions are served from the cache later')
    add_line = g[adds[0]].ast.lineno
    zero = [n for n in walk_no_nested(fn) if isinstance(n, ast.If) and 'not i.value' in unparse(n.test) and 't.coinbase' in unparse(n.test)
            and any(isinstance(s_, ast.Return) for s_ in n.body) and n.lineno < add_line]
    ctx.saw('zero-value input guard before the add: %s' % [norm(z.test) for z in zero])
    ctx.require(bool(zero), q, 'a non-coinbase transaction with a zero-value input can be cached', g[adds[0]].ast)


@PROP.obligation('C20.error-accounting', canaries=[
    mut.replace_stmt('services.services', 'Service._provider_execute', "_logger.debug('Method %s not found for provider %s' % (method, sp))", "self.errors.update({sp: 'Method %s not found' % method})", 'providers without the method use up the error budget'),
])
def error_accounting(ctx):
    """Service._provider_execute aborts when len(self.errors) reaches max_errors, so only a provider that was actually called and failed
    may be recorded in self.errors: every store into self.errors lies in the exception handler of the provider call or is reachable only
    after the provider method was called. A provider that is skipped (no url, method not implemented, api key missing) must not count."""
    q = 'services.services:Service._provider_execute'
    fn = ctx.repo.func(q)
    g = build_cfg(fn)
    rd = ReachingDefs(fn, g)
    # the provider call: a call of a local that was obtained with getattr(<instance>, method)
    callers = []
    for n in g.nodes:
        if n.ast is None or n.kind != 'stmt':
            continue
        for c in ast.walk(n.ast):
            if isinstance(c, ast.Call) and isinstance(c.func, ast.Name) and any(isinstance(a, ast.Starred) for a in c.args):
                lv = rd.leaves(c.func, n.id)
                if any(x[0] == 'call' and x[1] == 'getattr' for x in lv):
                    callers.append(n)
    if len(callers) != 1:
        ctx.undecided('_provider_execute: provider call not identified (%d candidates)' % len(callers))
    call = callers[0]
    handlers = [h for t in ast.walk(fn) if isinstance(t, ast.Try) for h in t.handlers]
    in_handler = set(id(x) for h in handlers for x in ast.walk(h))
    stores = []
    for n in g.nodes:
        if n.ast is None or n.kind not in ('stmt',):
            continue
        for c in ast.walk(n.ast):
            if (isinstance(c, ast.Call) and norm(c.func) in ('self.errors.update', 'self.errors.setdefault')) or \
                    (isinstance(c, ast.Subscript) and isinstance(c.ctx, ast.Store) and norm(c.value) == 'self.errors'):
                stores.append((n, c))
    ctx.floor(len(stores), 2, 'stores into self.errors')
    reach_without_call = g.reach([g.entry], blocked_nodes=[call.id])
    for n, c in stores:
        where = 'exception handler' if id(c) in in_handler else ('after the provider call' if n.id not in reach_without_call else 'BEFORE / WITHOUT the provider call')
        ctx.saw('self.errors store at line %d: %s' % (c.lineno, where))
        if id(c) not in in_handler and n.id in reach_without_call:
            ctx.violate(q, 'an error is recorded at line %d on a path on which the provider method was never called' % c.lineno, c,
                        'providers that are merely skipped use up max_errors: the query aborts although a healthy provider is next in line')
    lim = [n for n in ast.walk(fn) if isinstance(n, ast.Compare) and 'len(self.errors)' in norm(n) and 'self.max_errors' in norm(n)]
    ctx.require(bool(lim), q, 'the error limit is no longer compared with len(self.errors)', fn)


@PROP.obligation('C20.block-page-complete', canaries=[
    mut.replace_expr('services.services', 'Service.getblock', '(page - 1) * limit - block.tx_count + len(block.transactions)', 'page * limit - block.tx_count + len(block.transactions)', 'partially cached last page served as complete'),
    mut.replace_expr('services.services', 'Service.getblock', 'len(block.transactions) < limit', 'len(block.transactions) < limit - 1', 'inner page with one transaction missing served from cache'),
])
def block_page_complete(ctx):
    """Service.getblock serves a page of a block from the cache only when the cache holds the whole page. The decision expression (with
    is_last_page as the code defines it) is evaluated for every combination of tx_count 0..12, limit 1..6, page 1..4 and every number of
    cached transactions below the number the page must hold, min(limit, tx_count - (page-1)*limit): the providers must be asked in
    every such case. (Only comparisons and small integer arithmetic are involved, so the grid covers all orderings.)"""
    q = 'services.services:Service.getblock'
    fn = ctx.repo.func(q)
    last = [n for n in ast.walk(fn) if isinstance(n, ast.Assign) and norm(n.targets[0]) == 'is_last_page' and not isinstance(n.value, ast.Constant)]
    dec = [n for n in ast.walk(fn) if isinstance(n, ast.If) and 'is_last_page' in norm(n.test) and any(isinstance(c, ast.Call) and norm(c.func) == 'self._provider_execute' for c in ast.walk(n))]
    if len(last) != 1 or len(dec) != 1:
        ctx.undecided('getblock: page-completeness decision not found')
    B = ('var', 'block')
    it = Interp(ctx.repo, 'services.services', self_cls='services.services:Service', decide=lambda t: True if t == B else None)
    n = bad = 0
    first = None
    for tx_count in range(0, 13):
        for limit in range(1, 7):
            for page in range(1, 5):
                expected = min(limit, max(tx_count - (page - 1) * limit, 0))
                for cached in range(0, expected):
                    st = State(env={'self': S(('var', 'self')), 'block': S(B), 'page': page, 'limit': limit, 'parse_transactions': True})
                    st.heap[('attr', B, 'tx_count')] = tx_count
                    st.heap[('attr', B, 'transactions')] = ['t%d' % i for i in range(cached)]
                    lastv = it.eval(last[0].value, st)
                    st.env['is_last_page'] = lastv
                    ask = it.truth(it.eval(dec[0].test, st), st)
                    if not isinstance(ask, bool):
                        ctx.undecided('getblock: decision not decidable on concrete counts: %s' % show(term(ask))[:100])
                    n += 1
                    if not ask:
                        bad += 1
                        first = first or (tx_count, limit, page, cached, expected)
    ctx.saw('%d incomplete-page situations evaluated, served from cache although incomplete: %d' % (n, bad))
    ctx.floor(n, 400, 'grid points')
    if bad:
        ctx.violate(q, 'a block with %d transactions, limit %d, page %d: %d of the %d transactions of the page are cached and the page is served from the cache' % first, dec[0],
                    'getblock returns a partial transaction list as if it were the whole page (%d grid points)' % bad)


@PROP.obligation('C20.arg-binding')
def arg_binding(ctx):
    """Calls inside services.services, services.baseclient that pass two or more positional arguments: a variable passed positionally must not land on a parameter of another
    name while the callee has a parameter of the variable's own name elsewhere (argument inserted / dropped / swapped)."""
    from .common_argsel import arg_binding as run
    run(ctx, ['services.services', 'services.baseclient'], 'a provider query is made with shifted arguments')


@PROP.obligation('C20.abort-keeps-answers', canaries=[
    mut.replace_stmt('services.services', 'Service._provider_execute', 'if len(self.results)', 'return False', 'answers already collected are discarded when the error limit is reached'),
])
def abort_keeps_answers(ctx):
    """Service._provider_execute, error-limit abort (len(self.errors) >= max_errors, reachable with max_providers >= 2 after a provider
    already answered): an answer that was collected is returned; False is returned only when there is none."""
    q = 'services.services:Service._provider_execute'
    fn = ctx.repo.func(q)
    lim = [n for n in ast.walk(fn) if isinstance(n, ast.If) and 'len(self.errors)' in norm(n.test) and 'self.max_errors' in norm(n.test)]
    if len(lim) != 1:
        ctx.undecided('_provider_execute: error-limit block not found')
    inner = [s_ for s_ in lim[0].body if isinstance(s_, ast.If) and 'self.results' in norm(s_.test)]
    rets = [s_ for s_ in lim[0].body if isinstance(s_, ast.Return)]
    ctx.saw('error-limit block: nested test %s, direct returns %s' % ([norm(i.test) for i in inner], [norm(r) for r in rets]))
    if rets and not inner:
        ctx.violate(q, 'when the error limit is reached `%s` is executed without looking at the answers collected so far' % norm(rets[0]), rets[0],
                    'with max_providers >= 2 a query (or a broadcast) that one provider already answered is reported as failed')
        return
    if not inner:
        ctx.unsure('%s: abort path not recognised' % q)
        return
    good = [r for r in ast.walk(inner[0]) if isinstance(r, ast.Return) and r in inner[0].body and 'self.results' in norm(r)]
    ctx.require(bool(good), q, 'the error-limit abort does not return the collected answer', inner[0])


@PROP.obligation('C20.cache-after-txid', canaries=[
    mut.replace_expr('services.services', 'Cache.gettransactions', 'DbCacheTransaction.block_height >= after_tx.block_height', 'DbCacheTransaction.block_height > after_tx.block_height', 'transactions later in the block of after_txid skipped'),
])
def cache_after_txid(ctx):
    """Cache.gettransactions(after_txid): the cached history is continued from the BLOCK of after_txid inclusive (block_height >=), and the
    loop then drops everything up to and including after_txid itself - transactions of the address later in that same block belong to
    the answer."""
    q = 'services.services:Cache.gettransactions'
    fn = ctx.repo.func(q)
    cmps = [c for c in ast.walk(fn) if isinstance(c, ast.Compare) and norm(c.left) == 'DbCacheTransaction.block_height' and 'after_tx.block_height' in norm(c)]
    if len(cmps) != 1:
        ctx.undecided('Cache.gettransactions: lower bound on the block height not found')
    op = type(cmps[0].ops[0]).__name__
    ctx.saw('lower bound: %s' % norm(cmps[0]))
    if op == 'Gt':
        ctx.violate(q, 'the history is continued with blocks strictly AFTER the block of after_txid (`%s`)' % norm(cmps[0]), cmps[0],
                    'transactions of the address that follow after_txid in the same block are missing from the continued history')
    elif op != 'GtE':
        ctx.unsure('%s: lower bound `%s` not recognised' % (q, norm(cmps[0])))
    drop = [n for n in ast.walk(fn) if isinstance(n, ast.If) and norm(n.test) == 'd.txid == after_txid']
    ctx.require(bool(drop), q, 'the entries up to and including after_txid are no longer dropped', fn)


@PROP.obligation('C20.http-status', canaries=[
    mut.replace_expr('services.baseclient', 'BaseClient.request', 'not (self.resp.status_code == 200 or self.resp.status_code == 201)', 'self.resp.status_code > 400', 'HTTP 400 answers are handed to the client as data'),
    mut.replace_expr('services.baseclient', 'BaseClient.request', 'self.resp.status_code == 429', 'self.resp.status_code == 430', 'rate-limit answers are not an error') if False else
    mut.replace_expr('services.baseclient', 'BaseClient.request', 'not (self.resp.status_code == 200 or self.resp.status_code == 201)', 'self.resp.status_code >= 500', 'client errors are handed to the client as data'),
])
def http_status(ctx):
    """BaseClient.request, the transport every web provider client uses: the statements that test self.resp.status_code are evaluated for
    each status class. Every 4xx / 5xx answer (400, 401, 403, 404, 409, 429, 500, 502, 503) raises ClientError - so that
    Service counts the provider as failed and moves on - and 200 / 201 reach the decoding of the body."""
    q = 'services.baseclient:BaseClient.request'
    fn = ctx.repo.func(q)
    ifs = [n for n in fn.body if isinstance(n, ast.If) and 'status_code' in norm(n.test)]
    if not ifs:
        ctx.undecided('BaseClient.request: status test not found at statement level')
    I = ('var', 'self')
    res = {}
    for code in (200, 201, 400, 401, 403, 404, 409, 429, 500, 502, 503):
        it = Interp(ctx.repo, 'services.baseclient', self_cls='services.baseclient:BaseClient')
        st = State(env={'self': S(I), 'log_url': 'u', 'resp_text': 't'})
        st.heap[('attr', ('attr', I, 'resp'), 'status_code')] = code
        it.frames.append([])
        end = st
        try:
            for n in ifs:
                end = it.exec_stmt(n, end)
                if end is None:
                    break
        except AnalysisError as e:
            ctx.undecided('BaseClient.request: status handling not evaluable for %d: %s' % (code, str(e)[:80]))
        kinds = set(e.kind for e in it.frames[-1])
        res[code] = 'raises' if end is None and kinds == {'raise'} else ('continues' if end is not None and not kinds else 'mixed')
    ctx.saw('status -> %s' % res)
    for code, r in sorted(res.items()):
        if code in (200, 201):
            ctx.require(r == 'continues', q, 'a %d answer does not reach the decoding of the body (%s)' % (code, r), ifs[0])
        else:
            ctx.require(r == 'raises', q, 'an HTTP %d answer is not an error: its body is decoded and returned to the provider client as data' % code, ifs[0],
                        'the error text of the provider is the "answer": Service does not fail over to the next provider and returns e.g. "Invalid hex string" as a raw transaction / txid')


@PROP.obligation('C20.per-address-store', canaries=[
    mut.replace_expr(SVC, 'Service.getbalance', 'self.cache.store_address(addresslist[0], balance=balance)', 'self.cache.store_address(addresslist[0], balance=tot_balance)', 'running total of the call stored as the balance of one address'),
])
def per_address_store(ctx):
    """Service methods cache a balance per ADDRESS (cache.store_address(address, balance=...)). The stored value must describe that one
    address: it does not derive from a running total - a variable that a loop of the method accumulates with += over several addresses /
    cache entries. In getbalance the stored value is the answer of the provider call for the remaining single address, nothing else."""
    m = ctx.repo.mod(SVC)
    n = 0
    for q, f in sorted(m.functions.items()):
        if not q.startswith('Service.'):
            continue
        stores = [c for c in ast.walk(f) if isinstance(c, ast.Call) and norm(c.func) == 'self.cache.store_address']
        if not stores:
            continue
        rd = ReachingDefs(f)
        accum = set(d.name for d in rd.defs if d.kind == 'aug')
        for c in stores:
            bal = next((k.value for k in c.keywords if k.arg == 'balance'), None)
            if bal is None:
                continue
            n += 1
            nid = rd.node_of_ast(c)
            # names the stored expression depends on, transitively through local definitions
            seen, todo = set(), [x.id for x in ast.walk(bal) if isinstance(x, ast.Name)]
            while todo:
                nm = todo.pop()
                if nm in seen:
                    continue
                seen.add(nm)
                for d in rd.defs:
                    if d.name == nm and d.value is not None:
                        v = d.value.value if d.kind == 'aug' else d.value
                        todo += [x.id for x in ast.walk(v) if isinstance(x, ast.Name)]
            hit = sorted(seen & accum)
            lv = rd.leaves(bal, nid)
            ctx.saw('%s: store_address(balance=%s) <- %s' % (q, norm(bal), sorted(x[1] for x in lv if x[0] == 'call')))
            if hit:
                ctx.violate(SVC + ':' + q, 'the balance cached for one address (`%s`) derives from the running total `%s` that the method accumulates over several addresses' % (norm(c)[:80], hit[0]), c,
                            'after getbalance([a, b]) with a served from the cache, b is cached with balance(a) + balance(b): later queries for b alone answer the sum, from the cache, whatever the providers say')
            if q == 'Service.getbalance':
                ok = set(x for x in lv if x[0] in ('call', 'attr')) <= {('call', 'self._provider_execute')}
                ctx.require(ok or bool(hit), SVC + ':' + q, 'the balance cached by getbalance derives from %s, expected only the provider answer of this request' % sorted(str(x) for x in lv if x[0] in ('call', 'attr')), c)
    ctx.floor(n, 2, 'store_address calls with a balance')


@PROP.obligation('C20.explicit-falsy')
def explicit_falsy(ctx):
    """A parameter of the service layer that gets its default through a truthiness test is never passed an explicit falsy constant by a caller inside the package (min_providers, limits, after_txid)."""
    from .common_falsy import falsy_defaults as run
    run(ctx, ['services.services', 'services.baseclient'], 'a limit / provider count of 0 given on purpose is replaced by the default')


@PROP.obligation('C20.unknown-spent', canaries=[
    mut.replace_expr(SVC, 'Cache.getutxos', 'db_utxo.spent is False', 'not db_utxo.spent', 'cached outputs of unknown status served as unspent'),
    mut.replace_expr(SVC, 'Cache.getutxos', 'db_utxo.spent is None', 'db_utxo.spent is True', 'cache scan continues past an output of unknown status'),
])
def unknown_spent(ctx):
    """Cache.getutxos reads the three-valued column `spent` (False = unspent, True = spent, NULL = unknown: stored for transactions fetched
    through gettransaction(s) or from providers without spent information). The loop body is evaluated for each value: only False adds the
    output to the answer, True adds nothing, and NULL ends the answer from the cache there (the providers are asked for the rest)."""
    q = SVC + ':Cache.getutxos'
    fn = ctx.repo.func(q)
    loops = [n for n in walk_no_nested(fn) if isinstance(n, ast.For) and norm(n.iter) == 'db_utxos']
    if len(loops) != 1:
        ctx.undecided('Cache.getutxos: loop over the cached outputs not found')
    var = loops[0].target.id if isinstance(loops[0].target, ast.Name) else None
    if var is None:
        ctx.undecided('Cache.getutxos: loop variable not a name')
    U = ('var', var)
    res = {}
    for val in (False, True, None):
        it = Interp(ctx.repo, SVC, self_cls=SVC + ':Cache')
        st = State(env={'self': S(('var', 'self')), var: S(U), 'utxos': [], 'address': S(('var', 'address'), 'str'), 'after_txid': S(('var', 'after_txid'), 'bytes')})
        st.heap[('attr', U, 'spent')] = val
        it.frames.append([])
        try:
            body = [x for x in loops[0].body if isinstance(x, ast.If) and 'spent' in norm(x.test)]
            if not body:
                ctx.undecided('Cache.getutxos: no statement of the loop tests the spent column')
            end = it.exec_block(body, st)
        except AnalysisError as e:
            ctx.undecided('Cache.getutxos: loop body not evaluable for spent=%r: %s' % (val, str(e)[:80]))
        returned = [e for e in it.frames[-1] if e.kind == 'return']
        if end is None and returned:
            res[val] = 'returns'
        elif end is not None:
            lst = end.env.get('utxos')
            sizes = set()
            for t in subterms(('w', term(lst))):
                pass
            res[val] = 'adds' if (isinstance(lst, list) and len(lst) == 1) else ('skips' if (isinstance(lst, list) and len(lst) == 0) else 'mixed: %s' % show(term(lst))[:60])
        else:
            res[val] = 'raises'
    ctx.saw('spent False / True / NULL -> %s' % [res[v] for v in (False, True, None)])
    ctx.require(res[False] == 'adds', q, 'an output cached as unspent is not added to the answer (%s)' % res[False], loops[0])
    ctx.require(res[True] == 'skips', q, 'an output cached as SPENT is treated as: %s' % res[True], loops[0], 'spent outputs are reported as unspent')
    ctx.require(res[None] == 'returns', q, 'an output cached with UNKNOWN spent status is treated as: %s (expected: the cached answer ends there)' % res[None], loops[0],
                'outputs already spent on chain are served as unspent from the cache, and an older real UTXO can be cut off')


@PROP.obligation('C20.history-cache-guard', canaries=[
    mut.replace_expr(SVC, 'Service.gettransactions', 'self.min_providers <= 1 and (not (after_txid and (not db_addr))) and caching_enabled', 'caching_enabled', 'tail of a history cached as the complete history'),
    mut.replace_expr(SVC, 'Service.gettransactions', 'self.min_providers <= 1 and (not (after_txid and (not db_addr))) and caching_enabled', 'self.min_providers <= 1 and (not (after_txid and db_addr)) and caching_enabled', 'continuation guard inverted'),
])
def history_cache_guard(ctx):
    """Service.gettransactions marks an address as cached up to the current block (last_block = self.blockcount(), store_address with
    txs_complete) only when what it fetched is the history from its start or the continuation of a history the cache already holds. The
    guard of that block is evaluated: false for a continuation query (after_txid given) on an address the cache does not know, false when
    providers are being compared (min_providers > 1); true for a plain query and for a continuation of a cached address."""
    q = SVC + ':Service.gettransactions'
    fn = ctx.repo.func(q)
    blocks = [n for n in walk_no_nested(fn) if isinstance(n, ast.If) and any(isinstance(x, ast.Assign) and norm(x.targets[0]) == 'last_block' and 'blockcount' in norm(x.value) for x in n.body)]
    if len(blocks) != 1:
        ctx.undecided('gettransactions: the block that marks the address as up to date was not found')
    I = ('var', 'self')
    res = {}
    for label, after, db_addr, minp, want in (('plain query', '', None, 1, True), ('plain query, cached address', '', S(('var', 'db_addr')), 1, True),
                                              ('continuation of a cached address', 'ab' * 32, S(('var', 'db_addr')), 1, True),
                                              ('continuation on an address the cache does not know', 'ab' * 32, None, 1, False),
                                              ('comparing providers', '', None, 2, False)):
        it = Interp(ctx.repo, SVC, self_cls=SVC + ':Service', decide=lambda t: True if t == ('var', 'db_addr') else None)
        st = State(env={'self': S(I), 'after_txid': after, 'db_addr': db_addr, 'caching_enabled': minp <= 1})
        st.heap[('attr', I, 'min_providers')] = minp
        try:
            v = it.truth(it.eval(blocks[0].test, st), st)
        except AnalysisError as e:
            ctx.undecided('gettransactions: cache guard not evaluable: %s' % str(e)[:80])
        if not isinstance(v, bool):
            try:
                v = bool(intv.truth_eval(v, {('var', 'db_addr'): True}))
            except (intv.Unknown, KeyError, TypeError):
                ctx.undecided('gettransactions: cache guard `%s` not decidable for %s' % (norm(blocks[0].test)[:80], label))
        res[label] = v
        ctx.require(v is want, q, '%s: the address is %smarked as cached up to the current block (guard `%s`)' % (label, '' if v else 'not ', norm(blocks[0].test)[:90]), blocks[0],
                    'after gettransactions(address, after_txid=t) on a cold cache the tail is stored as the whole history: later queries are answered from the cache with the tail, no provider is asked, balance and n_txs are those of the tail'
                    if not want else 'histories are never cached')
    ctx.saw('history cache guard: %s' % res)


@PROP.obligation('C20.request-timeout', canaries=[
    mut.replace_expr('services.baseclient', 'BaseClient.request', 'requests.get(url, timeout=self.timeout, verify=secure, headers=headers)', 'requests.get(url, verify=secure, headers=headers)', 'GET requests wait for ever'),
])
def request_timeout(ctx):
    """Every HTTP request of the web provider clients (requests.get / post / put / request in bitcoinlib/services/*.py) carries
    timeout=self.timeout: a provider that accepts the connection and never answers must end in an exception so that Service records it
    as failed and moves on - without a timeout the query blocks for ever and no later provider is tried."""
    n = 0
    for mn, m in sorted(ctx.repo.modules.items()):
        if not mn.startswith('services.'):
            continue
        for q, f in sorted(m.functions.items()):
            for c in ast.walk(f):
                if isinstance(c, ast.Call) and isinstance(c.func, ast.Attribute) and isinstance(c.func.value, ast.Name) and c.func.value.id == 'requests' and c.func.attr in ('get', 'post', 'put', 'request', 'head', 'delete'):
                    n += 1
                    t = next((k.value for k in c.keywords if k.arg == 'timeout'), None)
                    ctx.saw('%s:%s: requests.%s(timeout=%s)' % (mn, q, c.func.attr, norm(t) if t is not None else None))
                    if t is None or (isinstance(t, ast.Constant) and t.value is None):
                        ctx.violate('%s:%s' % (mn, q), '`%s...` is sent without a timeout' % norm(c)[:70], c,
                                    'a provider that hangs blocks the whole query: it is never counted as failed and the providers after it are never asked')
    ctx.floor(n, 3, 'HTTP request call sites')


@PROP.obligation('C20.loop-fresh')
def loop_fresh(ctx):
    """The fail-over loop and the provider clients work per provider / per item: in bitcoinlib/services/*.py no variable that is assigned
    only inside a loop is read on a path of an iteration that did not assign it - an answer (or error) of the previous provider is never
    taken for the current one."""
    from .common_loopfresh import loop_fresh as run
    run(ctx, sorted(mn for mn in ctx.repo.modules if mn.startswith('services.')), 'the answer of an earlier provider / item is served for the current one')


def _lenient_reply(tree, q):
    a = mut.replace_expr('services.authproxy', q, "'result' not in response", 'False').mutate(tree)
    b = mut.replace_expr('services.authproxy', q, "response['result']", "response.get('result')").mutate(tree)
    return bool(a and b)


@PROP.obligation('C20.rpc-reply', canaries=[
    mut.Canary('single call: missing result member read as null', 'services.authproxy', lambda tree: _lenient_reply(tree, 'AuthServiceProxy.__call__')),
    mut.Canary('batch call: missing result member read as null', 'services.authproxy', lambda tree: _lenient_reply(tree, 'AuthServiceProxy.batch_')),
])
def rpc_reply(ctx):
    """The JSON-RPC transport of the node clients (bitcoind, litecoind, dogecoind) evaluated on concrete replies: a reply with a
    result member and no error returns exactly that member (null included), a reply with an error object raises, and a JSON object
    that is NOT a JSON-RPC reply (no result member: a gateway's {"message": ...}, {"error": null, "id": n}) raises as well - it is a
    failed provider, not an answer of None that the service layer hands on as the node's word."""
    AP = 'services.authproxy'
    good = {'result': {'txid': 'aa'}, 'error': None, 'id': 1}
    null = {'result': None, 'error': None, 'id': 1}
    err = {'result': None, 'error': {'code': -5, 'message': 'No such transaction'}, 'id': 1}
    junk = {'message': 'upstream unavailable'}
    noresult = {'error': None, 'id': 1}

    def run(q, reply, args):
        fn = ctx.repo.func(q)

        def hook(it, base, a, kw, st, node):
            import copy
            return copy.deepcopy(reply)
        it = Interp(ctx.repo, AP, hooks={'._get_response': hook}, self_cls=AP + ':AuthServiceProxy')
        try:
            exits = it.run_function(fn, dict(args, self=S(SELF)))
        except AnalysisError as e:
            ctx.undecided('%s on the reply %s not evaluable: %s' % (q, reply, str(e)[:100]))
        if any(e.pc for e in exits) or not exits:
            ctx.undecided('%s on the reply %s: outcome depends on %s' % (q, reply, [show(t)[:50] for e in exits for t, _ in e.pc][:3]))
        return fn, exits
    n = 0
    q = AP + ':AuthServiceProxy.__call__'
    for reply, want in ((good, ('return', good['result'])), (null, ('return', None)), (err, ('raise', None)), (junk, ('raise', None)), (noresult, ('raise', None))):
        fn, exits = run(q, reply, {'args': S(('var', 'args'))})
        kinds = sorted(set(e.kind for e in exits))
        n += 1
        ctx.saw('__call__ on %s -> %s' % (reply, [(e.kind, show(term(e.value))[:40]) for e in exits]))
        if want[0] == 'raise':
            ctx.require(kinds == ['raise'], q, 'the reply %s makes the call return %s instead of raising' % (reply, [show(term(e.value))[:40] for e in exits if e.kind == 'return']), fn,
                        'a malformed answer of a node provider is handed on as the answer None: the next provider is never asked')
        else:
            rets = [term(e.value) for e in exits if e.kind == 'return']
            wantv = term(want[1])
            ctx.require(kinds == ['return'] and rets == [wantv], q, 'the reply %s gives %s, expected its result member' % (reply, [(e.kind, show(term(e.value))[:40]) for e in exits]), fn)
    q = AP + ':AuthServiceProxy.batch_'
    for replies, want in (([good, null], 'return'), ([good, junk], 'raise'), ([noresult, good], 'raise'), ([good, err], 'raise')):
        fn, exits = run(q, replies, {'rpc_calls': []})
        kinds = sorted(set(e.kind for e in exits))
        n += 1
        ctx.saw('batch_ on %d replies (%s) -> %s' % (len(replies), want, kinds))
        if want == 'raise':
            ctx.require(kinds == ['raise'], q, 'the batch reply %s returns %s instead of raising' % (replies, [show(term(e.value))[:60] for e in exits if e.kind == 'return']), fn,
                        'a malformed answer inside a batch is handed on as the answer None')
        else:
            rets = [term(e.value) for e in exits if e.kind == 'return']
            ctx.require(kinds == ['return'] and rets == [term([r['result'] for r in replies])], q, 'the batch reply %s gives %s, expected the list of result members' % (replies, [show(r)[:60] for r in rets]), fn)
    ctx.floor(n, 9, 'reply scenarios')


@PROP.obligation('C20.summary-complete', canaries=[
    mut.replace_expr(SVC, 'Service.getutxos', "self._provider_execute('getutxos', address, after_txid, limit)", "self._provider_execute('getutxos', address, after_txid if not utxos_cache else utxos_cache[-1]['txid'], limit)", 'provider asked for the tail while the guard still tests the full-set marker'),
])
def summary_complete(ctx):
    """Service.getutxos caches an address summary (balance, number of unspent outputs) computed from the PROVIDER's answer alone. That is
    the summary of the address only when the provider was asked for the complete set, i.e. when the marker handed to
    _provider_execute('getutxos', address, <marker>, limit) was empty. The guard of the store tests exactly that expression, with the
    same reaching definitions - not the caller's argument while the provider was asked for the tail after the cached outputs."""
    q = SVC + ':Service.getutxos'
    f = ctx.repo.func(q)
    rd = ReachingDefs(f)
    g = rd.cfg
    calls = [c for c in ast.walk(f) if isinstance(c, ast.Call) and norm(c.func) == 'self._provider_execute' and c.args and isinstance(c.args[0], ast.Constant) and c.args[0].value == 'getutxos']
    if len(calls) != 1 or len(calls[0].args) < 3:
        ctx.undecided('Service.getutxos: %d provider calls for getutxos with a position marker, expected 1' % len(calls))
    marker = calls[0].args[2]
    call_id = rd.node_of_ast(calls[0])
    answer = None
    for n in ast.walk(f):
        if isinstance(n, ast.Assign) and n.value is calls[0] and isinstance(n.targets[0], ast.Name):
            answer = n.targets[0].id
    if answer is None:
        ctx.undecided('Service.getutxos: the provider answer is not bound to a name')
    stores = [c for c in ast.walk(f) if isinstance(c, ast.Call) and norm(c.func) == 'self.cache.store_address']
    ctx.floor(len(stores), 1, 'store_address calls in getutxos')
    for c in stores:
        nid = rd.node_of_ast(c)
        summ = [k for k in c.keywords if k.arg in ('balance', 'n_utxos')]
        if not summ:
            continue
        # the summary covers the complete list only if it is computed from cache part + provider part
        names = set()
        todo = [x.id for k in summ for x in ast.walk(k.value) if isinstance(x, ast.Name)]
        while todo:
            nm = todo.pop()
            if nm in names:
                continue
            names.add(nm)
            if nm == answer:
                continue
            for d in rd.reaching(nid, nm):
                if d.value is not None:
                    todo += [x.id for x in ast.walk(d.value if d.kind != 'aug' else d.value.value) if isinstance(x, ast.Name)]
        ctx.saw('store_address(%s) is computed from %s; the provider was asked with marker `%s`' % (', '.join('%s=%s' % (k.arg, norm(k.value)) for k in summ), sorted(names & {answer, 'utxos_cache'}), norm(marker)))
        if answer not in names:
            ctx.undecided('Service.getutxos: the cached summary does not derive from the provider answer `%s`' % answer)
        if 'utxos_cache' in names:
            continue
        guards = guards_of(g, nid)
        ok = False
        shown = []
        for tid, pol in guards:
            t = g.node(tid).ast if hasattr(g, 'node') else [n for n in g.nodes if n.id == tid][0].ast
            test = getattr(t, 'test', t)
            shown.append(('' if pol == 'T' else 'not ') + '(%s)' % norm(test)[:40])
            e, want = test, pol
            if isinstance(e, ast.UnaryOp) and isinstance(e.op, ast.Not):
                e, want = e.operand, ('F' if pol == 'T' else 'T')
            if want == 'F' and norm(e) == norm(marker):
                # same definitions of every name of the marker at the call and at the guard
                same = all(set(rd.reaching(call_id, x.id)) == set(rd.reaching(tid, x.id)) for x in ast.walk(marker) if isinstance(x, ast.Name))
                ok = ok or same
        ctx.require(ok, q, 'the summary of the provider answer alone is cached when %s, but the provider was asked with the marker `%s`: no guard requires that marker to be empty' % (' and '.join(shown) or 'always', norm(marker)), c,
                    'after a partial cache hit the address is cached with the balance / output count of the tail only (0 / 0 when nothing is new): getcacheaddressinfo and later cache answers report it')


@PROP.obligation('C20.failure-channel', canaries=[
    mut.replace_expr(SVC, 'Service.getrawtransaction', "self._provider_execute('getrawtransaction', txid)", "self._provider_execute('getrawtransaction', txid) or ''", 'failed raw-transaction query answers an empty string'),
])
def failure_channel(ctx):
    """_provider_execute answers False when no provider answered or the error limit was reached. Every Service method that calls it either
    raises on that value or hands it to its caller unchanged (the documented failure value). None CONVERTS it into something that reads
    like an answer: bool(False) is the answer "unspent", `if not fee: fee = <default>` is a fee nobody estimated. Each call site is
    classified; a site that is neither is undecided."""
    m = ctx.repo.mod(SVC)
    n = 0
    for qn, fn in sorted(m.functions.items()):
        if not qn.startswith('Service.') or qn == 'Service._provider_execute':
            continue
        parents = {}
        for x in ast.walk(fn):
            for c in ast.iter_child_nodes(x):
                parents[c] = x
        for c in ast.walk(fn):
            if not (isinstance(c, ast.Call) and norm(c.func) == 'self._provider_execute'):
                continue
            n += 1
            q = SVC + ':' + qn
            what = c.args[0].value if c.args and isinstance(c.args[0], ast.Constant) else '?'
            p_ = parents.get(c)
            if isinstance(p_, ast.Return):
                ctx.saw('%s: %s answer returned as it is' % (qn, what))
                continue
            if isinstance(p_, ast.Call) and isinstance(p_.func, ast.Name) and p_.func.id in ('bool', 'int', 'str', 'len', 'float', 'list', 'dict'):
                ctx.violate(q, 'the answer of the providers for `%s` goes through %s(...): the failure value False becomes the answer %r' % (what, p_.func.id, {'bool': False, 'int': 0, 'str': 'False', 'float': 0.0}.get(p_.func.id, '...')), p_,
                            'at the error limit (or when every provider fails) the query reports an answer no provider gave')
                continue
            if isinstance(p_, ast.BoolOp) or isinstance(p_, ast.IfExp):
                ctx.violate(q, 'the answer of the providers for `%s` is combined with a default (`%s`): the failure value is replaced' % (what, norm(p_)[:70]), p_,
                            'a failed query answers the default instead of failing')
                continue
            if isinstance(p_, ast.Assign) and len(p_.targets) == 1 and isinstance(p_.targets[0], ast.Name):
                v = p_.targets[0].id
                replaced = None
                for t in ast.walk(fn):
                    if not isinstance(t, ast.If):
                        continue
                    tt = t.test
                    falsy_test = (isinstance(tt, ast.UnaryOp) and isinstance(tt.op, ast.Not) and norm(tt.operand) == v) or norm(tt) in ('%s is False' % v, '%s == False' % v, '%s is None' % v)
                    if not falsy_test:
                        continue
                    for x in ast.walk(ast.Module(body=t.body, type_ignores=[])):
                        if isinstance(x, ast.Assign) and x is not p_ and t.lineno > p_.lineno and any(norm(y) == v for y in x.targets) and not (isinstance(x.value, ast.Constant) and x.value.value in (False, None)):
                            replaced = x
                if replaced is not None:
                    ctx.violate(q, 'when the providers give no answer for `%s` the method continues with `%s`' % (what, norm(replaced)[:70]), replaced,
                                'a failed query answers (and caches) a value no provider gave')
                else:
                    ctx.saw('%s: %s answer bound to `%s`, not replaced when it is the failure value' % (qn, what, v))
                continue
            if isinstance(p_, ast.Call) and isinstance(p_.func, ast.Attribute) and p_.func.attr == 'append':
                ctx.saw('%s: %s answer collected' % (qn, what))
                continue
            ctx.unsure('%s: use of the provider answer for `%s` not classified: %s' % (qn, what, norm(p_)[:80]))
    ctx.floor(n, 14, 'provider queries in Service')


@PROP.obligation('C20.per-query-state', canaries=[
    mut.drop_stmt(SVC, 'Service._reset_results', 'self.errors = {}', 'failures of earlier queries count towards the error limit'),
    mut.drop_stmt(SVC, 'Service._reset_results', 'self.results = {}', 'answers of earlier queries survive into the next one'),
    mut.drop_stmt(SVC, 'Service._reset_results', 'self.resultcount = 0', 'answer count of earlier queries survives'),
])
def per_query_state(ctx):
    """The fail-over loop of Service._provider_execute accumulates into attributes of the long-lived Service object: failures
    (self.errors), answers (self.results), the answer count. "The error limit is reached" and "a provider answered" are statements about
    THIS query, so each of these attributes is reset before the loop on every path - by _provider_execute itself or by the method it calls
    first. A counter that survives a query aborts later queries although a healthy provider was available."""
    q = SVC + ':Service._provider_execute'
    fn = ctx.repo.func(q)
    loops = [n for n in fn.body if isinstance(n, ast.For)]
    if len(loops) != 1:
        ctx.undecided('_provider_execute: %d provider loops at statement level, expected 1' % len(loops))
    loop = loops[0]
    acc = {}
    for n in ast.walk(loop):
        if isinstance(n, ast.Call) and isinstance(n.func, ast.Attribute) and n.func.attr in ('update', 'append', 'add', 'setdefault', 'extend') and isinstance(n.func.value, ast.Attribute) and norm(n.func.value.value) == 'self':
            acc.setdefault(n.func.value.attr, n)
        if isinstance(n, ast.AugAssign) and isinstance(n.target, ast.Attribute) and norm(n.target.value) == 'self':
            acc.setdefault(n.target.attr, n)
        if isinstance(n, ast.Assign):
            for t in n.targets:
                if isinstance(t, ast.Subscript) and isinstance(t.value, ast.Attribute) and norm(t.value.value) == 'self':
                    acc.setdefault(t.value.attr, n)
    ctx.saw('attributes the provider loop accumulates into: %s' % sorted(acc))
    ctx.floor(len(acc), 3, 'accumulated attributes')
    # statements before the loop: direct assignments and the self-methods called there
    before = fn.body[:fn.body.index(loop)]
    reset = set()
    for st in before:
        for n in ast.walk(st):
            if isinstance(n, ast.Assign):
                for t in n.targets:
                    if isinstance(t, ast.Attribute) and norm(t.value) == 'self':
                        reset.add(t.attr)
            if isinstance(n, ast.Call) and isinstance(n.func, ast.Attribute) and norm(n.func.value) == 'self' and isinstance(st, ast.Expr) and st.value is n:
                callee = ctx.repo.resolve_method(SVC + ':Service', n.func.attr)
                if callee:
                    for b in ctx.repo.func(callee).body:      # unconditional statements only
                        if isinstance(b, ast.Assign):
                            for t in b.targets:
                                if isinstance(t, ast.Attribute) and norm(t.value) == 'self':
                                    reset.add(t.attr)
    ctx.saw('attributes reset unconditionally before the loop: %s' % sorted(reset))
    for a, node in sorted(acc.items()):
        ctx.require(a in reset, q, 'self.%s is accumulated by the provider loop (`%s`) but not reset at the start of the query' % (a, norm(node)[:60]), node,
                    'the error limit counts the providers that failed in ANY earlier query of the Service object: a later query is aborted (answer False / ServiceError) although fewer than max_errors providers failed in it and a healthy one was available' if a == 'errors'
                    else 'data of an earlier query is part of the answer of this one')


@PROP.obligation('C20.cache-network', canaries=[
    mut.replace_expr(SVC, 'Cache.getblock', 'qr.filter_by(height=blockid, network_name=self.network.name)', 'qr.filter_by(height=blockid)', 'cached block looked up by height alone'),
])
def cache_network(ctx):
    """The cache database is shared by all networks, and block heights coincide across chains. Every look-up of the Cache readers that
    selects rows by a HEIGHT (DbCacheBlock.height, DbCacheTransaction.block_height) also selects by network_name = the network of the
    service; a primary-key get() on the block table (the key is the height) is such a look-up without network. Hashes (txid, block hash)
    identify a row by themselves."""
    m = ctx.repo.mod(SVC)
    n = 0
    for qn, fn in sorted(m.functions.items()):
        if not qn.startswith('Cache.get') and qn not in ('Cache.blockcount', 'Cache.estimatefee'):
            continue
        for c in ast.walk(fn):
            if not isinstance(c, ast.Call) or not isinstance(c.func, ast.Attribute):
                continue
            if c.func.attr == 'get' and norm(c.func.value).endswith('session') and c.args and 'DbCacheBlock' in norm(c.args[0]):
                n += 1
                ctx.violate(SVC + ':' + qn, 'a cached block is fetched by primary key (`%s`): the key is the height, the network is not part of the look-up' % norm(c)[:70], c,
                            "Service('bitcoin').getblock(h) is answered with the litecoin block cached at the same height - foreign hash, merkle root and transactions - and no bitcoin provider is asked")
                continue
            if c.func.attr not in ('filter_by', 'filter'):
                continue
            preds = [k.arg for k in c.keywords] if c.func.attr == 'filter_by' else [norm(a) for a in c.args]
            by_height = [p_ for p_ in preds if p_ == 'height' or p_ == 'block_height' or '.height ==' in p_ or '.block_height ==' in p_]
            if not by_height:
                continue
            n += 1
            # predicates of the whole chain this call belongs to (calls it is applied to and calls applied to it)
            chain = list(preds)
            cur = c.func.value
            while isinstance(cur, ast.Call) and isinstance(cur.func, ast.Attribute):
                if cur.func.attr == 'filter_by':
                    chain += [k.arg for k in cur.keywords]
                elif cur.func.attr == 'filter':
                    chain += [norm(a) for a in cur.args]
                cur = cur.func.value
            parents = {}
            for x in ast.walk(fn):
                for y in ast.iter_child_nodes(x):
                    parents[y] = x
            up = c
            while isinstance(parents.get(up), ast.Attribute) and isinstance(parents.get(parents[up]), ast.Call):
                up = parents[parents[up]]
                if up.func.attr == 'filter_by':
                    chain += [k.arg for k in up.keywords]
                elif up.func.attr == 'filter':
                    chain += [norm(a) for a in up.args]
            scoped = any('network_name' in p_ for p_ in chain)
            ctx.saw('%s: rows selected by %s, network predicate: %s' % (qn, by_height, scoped))
            ctx.require(scoped, SVC + ':' + qn, 'cached rows are selected by %s without a predicate on network_name' % ', '.join(by_height)[:80], c,
                        'two networks share one cache database: the block page of one network is served with the transactions of the other network cached at the same height')
    ctx.floor(n, 2, 'height look-ups in the cache readers')


@PROP.obligation('C20.provider-work-guarded', canaries=[
    mut.Canary('the provider client is constructed before the guarded block', SVC, lambda tree: _mut_hoist_client(tree)),
])
def provider_work_guarded(ctx):
    """"Providers that raise ... are skipped" covers everything done FOR one provider: looking up its module and class, constructing the
    client (bitcoind / litecoind clients raise in their constructor when no url or config file is set, an unparsable rpc url raises in
    the proxy), asking it. In the provider loop of Service._provider_execute every call - apart from len / isinstance / logging - sits
    inside the try whose handler catches Exception, records the error and goes on: a call outside of it lets one misconfigured
    provider abort the query while healthy providers further down are never asked."""
    q = SVC + ':Service._provider_execute'
    fn = ctx.repo.func(q)
    loops = [n for n in walk_no_nested(fn) if isinstance(n, ast.For) and isinstance(n.target, ast.Name) and n.target.id == 'sp']
    if len(loops) != 1:
        ctx.undecided('_provider_execute: provider loop not found')
    loop = loops[0]
    guarded = set()
    tries = 0
    for t in ast.walk(loop):
        if isinstance(t, ast.Try) and any(h.type is None or norm(h.type) in ('Exception', 'BaseException') for h in t.handlers):
            tries += 1
            for s_ in t.body:
                for x in ast.walk(s_):
                    guarded.add(id(x))
            for h in t.handlers:
                for x in ast.walk(h):
                    guarded.add(id(x))          # the handler itself: bookkeeping, decided by C20.raise-skip
    if not tries:
        ctx.violate(q, 'the provider loop has no try block that catches Exception', loop, 'one failing provider fails the whole query')
        return
    harmless = ('len', 'isinstance', 'hasattr', 'list', 'sorted', 'str')
    n = out = 0
    for c in ast.walk(loop):
        if not isinstance(c, ast.Call):
            continue
        n += 1
        if id(c) in guarded:
            continue
        f = norm(c.func)
        if f in harmless or f.startswith('_logger.'):
            continue
        out += 1
        ctx.violate(q, '`%s` is called inside the provider loop but outside the try block that skips failing providers' % norm(c)[:70], c,
                    "a provider named bitcoind with an empty url (providers.examples.json), an unknown client class or an unparsable rpc url raises out of the query - also out of Service() itself - instead of being skipped: nothing lands in self.errors and the healthy providers after it are never asked")
    ctx.saw('%d calls in the provider loop, %d of them outside the guarded block' % (n, out))
    ctx.floor(n, 10, 'calls in the provider loop')


def _mut_hoist_client(tree):
    """move `client = getattr(...)`, `providerclient = getattr(...)` and `pc_instance = providerclient(...)` in front of the try"""
    for cls in tree.body:
        if isinstance(cls, ast.ClassDef) and cls.name == 'Service':
            for f in cls.body:
                if isinstance(f, ast.FunctionDef) and f.name == '_provider_execute':
                    for loop in ast.walk(f):
                        if isinstance(loop, ast.For) and isinstance(loop.target, ast.Name) and loop.target.id == 'sp':
                            for i, s_ in enumerate(loop.body):
                                if isinstance(s_, ast.Try):
                                    moved = [x for x in s_.body if isinstance(x, ast.Assign) and isinstance(x.targets[0], ast.Name) and x.targets[0].id in ('client', 'providerclient', 'pc_instance')]
                                    if len(moved) != 3:
                                        return False
                                    s_.body = [x for x in s_.body if x not in moved]
                                    loop.body[i:i] = moved
                                    return True
    return False


@PROP.obligation('C20.page-window', canaries=[
    mut.replace_expr(SVC, 'Cache.getblocktransactions', 'DbCacheTransaction.index < n_to', 'DbCacheTransaction.index <= n_to', 'the page read from the cache includes the first transaction of the next page'),
    mut.replace_expr(SVC, 'Cache.getblocktransactions', 'DbCacheTransaction.index >= n_from', 'DbCacheTransaction.index > n_from', 'the first transaction of a page is not read from the cache'),
])
def page_window(ctx):
    """Cache.getblocktransactions(height, page, limit) returns the cached transactions of ONE page: those with index (page-1)*limit ...
    page*limit - 1. The conditions the query puts on DbCacheTransaction.index (comparisons, .between(a, b) - inclusive on both ends in
    SQL) are evaluated for every page 1..5, limit 1..7 and index 0..40: exactly the `limit` indexes of the page satisfy them. One index
    more and Service.getblock, which counts what the cache returned, serves limit+1 transactions without asking a provider."""
    q = SVC + ':Cache.getblocktransactions'
    fn = ctx.repo.func(q)
    conds = []
    for c in ast.walk(fn):
        if isinstance(c, ast.Call) and isinstance(c.func, ast.Attribute) and c.func.attr in ('filter', 'where'):
            for a in c.args:
                if any(isinstance(x, ast.Attribute) and x.attr == 'index' and norm(x.value) == 'DbCacheTransaction' for x in ast.walk(a)):
                    conds.append(a)
    if not conds:
        ctx.undecided('getblocktransactions: no condition on DbCacheTransaction.index')
    locals_ = [a for a in fn.body if isinstance(a, ast.Assign) and len(a.targets) == 1 and isinstance(a.targets[0], ast.Name) and
               all(isinstance(x, (ast.Name, ast.Constant, ast.BinOp, ast.operator, ast.expr_context, ast.UnaryOp, ast.unaryop)) for x in ast.walk(a.value))]

    def pred(cond, env):
        if isinstance(cond, ast.Compare) and len(cond.ops) == 1:
            src = norm(cond).replace('DbCacheTransaction.index', '_i')
            return eval(compile(ast.parse(src, mode='eval'), '<page>', 'eval'), {'__builtins__': {}}, env)
        if isinstance(cond, ast.Call) and isinstance(cond.func, ast.Attribute) and cond.func.attr == 'between' and norm(cond.func.value) == 'DbCacheTransaction.index' and len(cond.args) == 2:
            lo = eval(compile(ast.Expression(cond.args[0]), '<page>', 'eval'), {'__builtins__': {}}, env)
            hi = eval(compile(ast.Expression(cond.args[1]), '<page>', 'eval'), {'__builtins__': {}}, env)
            return lo <= env['_i'] <= hi
        raise AnalysisError('condition `%s` on the transaction index is outside the model' % norm(cond)[:60])
    n = 0
    first = None
    for page in range(1, 6):
        for limit in range(1, 8):
            env = {'page': page, 'limit': limit}
            for a in locals_:
                try:
                    env[a.targets[0].id] = eval(compile(ast.Expression(a.value), '<page>', 'eval'), {'__builtins__': {}}, env)
                except Exception:
                    pass
            got = []
            for i in range(0, 41):
                env['_i'] = i
                try:
                    if all(pred(c, env) for c in conds):
                        got.append(i)
                except AnalysisError as e:
                    ctx.undecided('getblocktransactions: %s' % e)
                except Exception as e:
                    ctx.undecided('getblocktransactions: index condition not evaluable: %r' % e)
            exp = list(range((page - 1) * limit, page * limit))
            n += 1
            if got != exp and first is None:
                first = (page, limit, got, exp)
    ctx.saw('index conditions %s evaluated on %d (page, limit) pairs' % ([norm(c)[:50] for c in conds], n))
    if first:
        ctx.violate(q, 'page %d with limit %d reads the cached transactions with index %s, expected %s' % (first[0], first[1], first[2][:9], first[3][:9]), conds[0],
                    'after page 2 was cached, page 1 is answered from the cache with limit+1 transactions - the first transaction of page 2 included - and no provider is asked: not what any provider returned')
    ctx.floor(n, 35, '(page, limit) pairs')


def _may_return_false(fn):
    rets = [r for r in walk_no_nested(fn) if isinstance(r, ast.Return)]
    has_false = any(isinstance(r.value, ast.Constant) and r.value.value is False for r in rets)
    other = any(r.value is not None and not (isinstance(r.value, ast.Constant) and isinstance(r.value.value, bool)) for r in rets)
    return has_false and other


@PROP.obligation('C20.false-not-a-number', canaries=[
    mut.replace_expr(SVC, 'Cache.gettransaction', 't.block_height and blockcount', 't.block_height', 'confirmations computed from an unavailable block count'),
    mut.replace_expr(SVC, 'Cache.gettransactions', 't.block_height and blockcount', 't.block_height', 'confirmations of address transactions computed from an unavailable block count'),
])
def false_not_a_number(ctx):
    """Cache and Service methods signal "not available" with False (Cache.blockcount once the stored count has expired, every Cache
    reader with the cache switched off). False is also the number 0: `(self.blockcount() - t.block_height) + 1` turns an expired block
    count into -989 confirmations on a transaction that was stored with 11. Wherever services.py uses the result of a method of
    Cache / Service that can return False as an operand of + - * / //, the operand is a local that a truth test guards on every path
    (if x: ... / `h and x`), never the call itself."""
    mod = ctx.repo.mod(SVC)
    falsy_methods = {}
    for name, fn in mod.functions.items():
        if '.' in name and name.split('.')[0] in ('Cache', 'Service') and _may_return_false(fn):
            falsy_methods.setdefault(name.split('.')[0], set()).add(name.split('.')[1])
    ctx.saw('methods that answer False or a value: %s' % {k: sorted(v) for k, v in falsy_methods.items()})
    n = 0
    for name, fn in sorted(mod.functions.items()):
        cls = name.split('.')[0] if '.' in name else None
        if cls not in ('Cache', 'Service'):
            continue
        q = '%s:%s' % (SVC, name)

        def falsy_call(c):
            if not (isinstance(c, ast.Call) and isinstance(c.func, ast.Attribute)):
                return False
            base = norm(c.func.value)
            owner = cls if base == 'self' else ('Cache' if base == 'self.cache' else None)
            return owner is not None and c.func.attr in falsy_methods.get(owner, ())
        holders = {}
        for a in walk_no_nested(fn):
            if isinstance(a, ast.Assign) and len(a.targets) == 1 and isinstance(a.targets[0], ast.Name) and falsy_call(a.value):
                holders[a.targets[0].id] = a
        g = None
        for b in walk_no_nested(fn):
            if not (isinstance(b, ast.BinOp) and isinstance(b.op, (ast.Add, ast.Sub, ast.Mult, ast.Div, ast.FloorDiv))):
                continue
            if isinstance(b.op, ast.Add) and not any(isinstance(x, ast.Constant) and isinstance(x.value, (int, float)) for x in (b.left, b.right)):
                continue        # + also joins lists (cached answers + provider answers); only number arithmetic is meant
            for side in (b.left, b.right):
                if falsy_call(side):
                    n += 1
                    ctx.violate(q, '`%s` uses the answer of %s, which is False when nothing is available, as a number' % (norm(b)[:60], norm(side.func)), b,
                                'a cached transaction at height 990 under an expired block count of 1000 is served with -989 confirmations: not the answer that was stored')
                elif isinstance(side, ast.Name) and side.id in holders:
                    n += 1
                    if g is None:
                        g = build_cfg(fn)
                    nodes = [nd for nd in g.nodes if nd.ast is not None and nd.kind in ('stmt', 'return') and any(x is b for x in ast.walk(nd.ast))]
                    guarded = bool(nodes) and all(any(pol == 'T' and side.id in [x.id for x in ast.walk(g[t].ast) if isinstance(x, ast.Name)] and not isinstance(g[t].ast, ast.Compare)
                                                      for t, pol in guards_of(g, nd.id)) for nd in nodes)
                    ctx.saw('%s: `%s` with %s = %s, guarded by a truth test: %s' % (name, norm(b)[:50], side.id, norm(holders[side.id].value)[:40], guarded))
                    ctx.require(guarded, q, '`%s` computes with `%s` = %s, which is False when nothing is available, without a truth test of it on the way' % (norm(b)[:60], side.id, norm(holders[side.id].value)[:50]), b,
                                'a cached transaction is served with a negative confirmation count once the cached block count has expired')
    ctx.floor(n, 2, 'computations with an answer that may be False')


@PROP.obligation('C20.cache-merge-zero', canaries=[
    mut.replace_expr(SVC, 'Cache.store_address', "balance if balance is not None else getattr(db_addr, 'balance', None)", "balance or getattr(db_addr, 'balance', None)", 'a balance of 0 does not overwrite the cached balance'),
    mut.replace_expr(SVC, 'Cache.store_address', "n_utxos if n_utxos is not None else getattr(db_addr, 'n_utxos', None)", "n_utxos or getattr(db_addr, 'n_utxos', None)", 'a count of 0 unspent outputs does not overwrite the cached count'),
])
def cache_merge_zero(ctx):
    """Cache.store_address merges what a provider just answered into the address record. 0 is an answer (an address that spent everything
    has balance 0, 0 unspent outputs): the arguments of the DbCacheAddress(...) row are evaluated with balance = 0, n_utxos = 0,
    n_txs = 0 against an existing record that holds other values - the row gets the zeros, not the old values ("answers served from
    the cache equal the answers that were stored": getbalance would keep serving the former balance)."""
    q = SVC + ':Cache.store_address'
    fn = ctx.repo.func(q)
    calls = [c for c in ast.walk(fn) if isinstance(c, ast.Call) and norm(c.func) == 'DbCacheAddress']
    if len(calls) != 1:
        ctx.undecided('store_address: %d DbCacheAddress(...) rows, expected 1' % len(calls))
    kw = {k.arg: k.value for k in calls[0].keywords if k.arg}
    DB = ('var', 'db_addr')
    it = Interp(ctx.repo, SVC, self_cls=SVC + ':Cache')
    st = State(env={'self': S(('var', 'self')), 'db_addr': S(DB), 'address': 'addr', 'last_block': 100, 'balance': 0, 'n_utxos': 0, 'n_txs': 0, 'last_txid': None, 'txs_complete': True})
    for a, v in (('balance', 5000), ('n_utxos', 3), ('n_txs', 7), ('last_block', 90), ('last_txid', b'\x11' * 32)):
        st.heap[('attr', DB, a)] = v
    n = 0
    for name in ('balance', 'n_utxos', 'n_txs'):
        if name not in kw:
            ctx.undecided('store_address: the row is built without %s=' % name)
        try:
            got = it.eval(kw[name], st)
        except AnalysisError as e:
            ctx.undecided('store_address: %s= not evaluable: %s' % (name, str(e)[:80]))
        n += 1
        gv = got if not isinstance(got, S) else show(term(got))
        ctx.saw('new %s 0 over a stored record -> row gets %s=%s' % (name, name, gv))
        ctx.require(got == 0 and not isinstance(got, bool), q, 'a newly determined %s of 0 is stored as `%s` = %s: the value of the old record' % (name, norm(kw[name])[:60], gv), kw[name],
                    'an address that spent everything keeps its former balance in the cache: getbalance answers it although every provider says 0')
    ctx.floor(n, 3, 'merged columns')


@PROP.obligation('C20.freshness-boundary', canaries=[
    mut.replace_expr(SVC, 'Service.gettransactions', 'db_addr.last_block >= self.blockcount()', 'db_addr.last_block >= self.blockcount() - 1', 'a history cached one block ago counts as up to date'),
    mut.replace_expr(SVC, 'Service.getbalance', 'db_addr.last_block >= self.blockcount()', 'db_addr.last_block + 1 >= self.blockcount()', 'a balance cached one block ago counts as up to date'),
])
def freshness_boundary(ctx):
    """A cached address record answers a query only while it is as recent as the chain: last_block >= block count (blockcount() IS the
    height of the tip). The tests in Service.gettransactions and Service.getbalance that decide whether providers are asked are evaluated
    for a record at height 100 under block counts 99, 100, 101 and 102: providers are skipped for 99 / 100 and asked for 101 / 102. One
    block of slack serves a history without the transactions of the newest block, marked complete."""
    n = 0
    DB = ('var', 'db_addr')
    for meth, pick in (('gettransactions', lambda t: 'blockcount' in norm(t) and '_provider_execute' in norm(t.body if hasattr(t, 'body') else t)),
                       ('getbalance', None)):
        q = '%s:Service.%s' % (SVC, meth)
        fn = ctx.repo.func(q)
        tests = [i_ for i_ in ast.walk(fn) if isinstance(i_, ast.If) and 'last_block' in norm(i_.test) and 'blockcount' in norm(i_.test)]
        if len(tests) != 1:
            ctx.undecided('%s: %d tests compare last_block with the block count, expected 1' % (meth, len(tests)))
        test = tests[0].test
        asks_when_true = any(isinstance(c, ast.Call) and norm(c.func) == 'self._provider_execute' for s_ in tests[0].body for c in ast.walk(s_))
        for count, fresh in ((99, True), (100, True), (101, False), (102, False)):
            it = Interp(ctx.repo, SVC, self_cls=SVC + ':Service', hooks={'.blockcount': lambda it_, b, a, kw, st, node, count=count: count},
                        decide=lambda t: True if t == DB else None)
            st = State(env={'self': S(('var', 'self')), 'db_addr': S(DB), 'caching_enabled': True})
            st.heap[('attr', DB, 'last_block')] = 100
            st.heap[('attr', DB, 'balance')] = 5000
            try:
                v = it.truth(it.eval(test, st), st)
            except AnalysisError as e:
                ctx.undecided('%s: freshness test not evaluable: %s' % (meth, str(e)[:80]))
            if not isinstance(v, bool):
                ctx.undecided('%s: freshness test `%s` not decided for block count %d' % (meth, norm(test)[:70], count))
            served_from_cache = (not v) if asks_when_true else v
            n += 1
            ctx.saw('%s: record at height 100, block count %d -> %s' % (meth, count, 'answered from the cache' if served_from_cache else 'providers asked'))
            ctx.require(served_from_cache is fresh, q, 'an address record of height 100 under block count %d is %s (`%s`)' % (count, 'answered from the cache' if served_from_cache else 'not used', norm(test)[:80]), tests[0],
                        'after one new block the cached history is returned without that block\'s transactions and marked complete; no provider is asked until another block arrives')
    ctx.floor(n, 8, 'freshness decisions')


@PROP.obligation('C20.node-sync-guard', canaries=[
    mut.replace_expr('services.bitcoind', 'BitcoindClient.blockcount', "bcinfo['headers'] - bcinfo['blocks']", "bcinfo['blocks'] - bcinfo['headers']", 'the sync guard of the bitcoind client can never fire'),
])
def node_sync_guard(ctx):
    """A node that is still catching up (validated blocks far behind the headers it knows) answers a stale height; BitcoindClient.blockcount
    raises for it so that the fail-over skips the provider. The guard is evaluated on a node 5000 blocks behind (must raise), 3 behind
    (must raise) and 0 / 2 behind (must answer): with the operands swapped it never fires and the stale height is returned and cached."""
    q = 'services.bitcoind:BitcoindClient.blockcount'
    fn = ctx.repo.func(q)
    guards = [i_ for i_ in ast.walk(fn) if isinstance(i_, ast.If) and any(isinstance(x, ast.Raise) for x in i_.body) and 'headers' in norm(i_.test) and 'blocks' in norm(i_.test)]
    if len(guards) != 1:
        ctx.undecided('BitcoindClient.blockcount: sync guard not found')
    names = set(x.id for x in ast.walk(guards[0].test) if isinstance(x, ast.Name))
    if len(names) != 1:
        ctx.undecided('BitcoindClient.blockcount: sync guard reads %s' % sorted(names))
    var = names.pop()
    n = 0
    for blocks, headers, want in ((795000, 800000, True), (799997, 800000, True), (799998, 800000, False), (800000, 800000, False)):
        try:
            r = bool(eval(compile(ast.Expression(guards[0].test), '<sync>', 'eval'), {'__builtins__': {}}, {var: {'blocks': blocks, 'headers': headers}}))
        except Exception as e:
            ctx.undecided('BitcoindClient.blockcount: sync guard not evaluable: %r' % e)
        n += 1
        ctx.saw('node at block %d of %d headers -> %s' % (blocks, headers, 'refused (fail-over)' if r else 'answers'))
        ctx.require(r is want, q, 'a node at block %d with %d headers known %s (`%s`)' % (blocks, headers, 'answers its stale height' if not r else 'is refused', norm(guards[0].test)[:60]), guards[0],
                    'a bitcoind provider in initial block download answers height 120000 while the chain is at 800000: Service.blockcount() returns and caches it instead of asking the next provider')
    ctx.floor(n, 4, 'sync scenarios')


@PROP.obligation('C20.clamp-before-cache', canaries=[
    mut.Canary('the fee estimate is cached before it is clamped to the network limits', SVC, lambda tree: _cache_before_clamp(tree)),
])
def clamp_before_cache(ctx):
    """Service.estimatefee clamps what a provider answered to the network's fee_min .. fee_max and caches the figure for later calls. The
    call that stores it (cache.store_estimated_fee) comes AFTER every assignment of the value it stores: what a later call is served
    from the cache is what the first call returned - not the raw figure (a provider's "no estimate" sentinel of -1 coin per kB would be
    handed out as a negative fee rate for ten minutes)."""
    q = SVC + ':Service.estimatefee'
    fn = ctx.repo.func(q)
    g = build_cfg(fn)
    stores = [nd for nd in g.nodes if nd.ast is not None and nd.kind == 'stmt' and any(isinstance(c, ast.Call) and isinstance(c.func, ast.Attribute) and c.func.attr == 'store_estimated_fee' for c in ast.walk(nd.ast))]
    if len(stores) != 1:
        ctx.undecided('Service.estimatefee: %d calls of store_estimated_fee, expected 1' % len(stores))
    call = [c for c in ast.walk(stores[0].ast) if isinstance(c, ast.Call) and isinstance(c.func, ast.Attribute) and c.func.attr == 'store_estimated_fee'][0]
    val = call.args[1] if len(call.args) > 1 else None
    if not isinstance(val, ast.Name):
        ctx.undecided('Service.estimatefee: the stored value is not a local variable')
    later = [nd for nd in g.nodes if nd.ast is not None and isinstance(nd.ast, ast.Assign) and any(isinstance(t, ast.Name) and t.id == val.id for t in nd.ast.targets)
             and nd.id in g.reach([stores[0].id]) and nd.id != stores[0].id]
    ctx.saw('store_estimated_fee(%s) at line %d; assignments of %s reachable after it: %s' % (val.id, stores[0].ast.lineno, val.id, [norm(x.ast)[:40] for x in later]))
    ctx.require(not later, q, '`%s` is stored in the cache and changed afterwards (`%s`): the cache holds another figure than the call returns' % (val.id, norm(later[0].ast)[:50] if later else ''), stores[0].ast,
                'the first estimatefee() returns the clamped 1000, every later call within ten minutes the cached raw -100000000')


def _cache_before_clamp(tree):
    for cls in tree.body:
        if isinstance(cls, ast.ClassDef) and cls.name == 'Service':
            for f in cls.body:
                if isinstance(f, ast.FunctionDef) and f.name == 'estimatefee':
                    for blk in ast.walk(f):
                        body = getattr(blk, 'body', None)
                        if not isinstance(body, list):
                            continue
                        idx = [i for i, s_ in enumerate(body) if isinstance(s_, ast.Expr) and 'store_estimated_fee' in norm(s_)]
                        clamp = [i for i, s_ in enumerate(body) if isinstance(s_, ast.If) and 'fee_min' in norm(s_.test)]
                        if idx and clamp and clamp[0] < idx[0]:
                            st = body.pop(idx[0])
                            body.insert(clamp[0], st)
                            return True
    return False


@PROP.obligation('C20.no-estimate-is-no-answer', canaries=[
    mut.replace_expr('services.bcoin', 'BcoinClient.estimatefee', 'not fee', 'fee is None', 'a bcoin node without fee data answers the estimate 0'),
])
def no_estimate_is_no_answer(ctx):
    """"Providers that ... answer empty are skipped": a bcoin node that has no fee data replies {"rate": 0}. BcoinClient.estimatefee is
    evaluated on that reply and on a real one: rate 0 gives False (the value _provider_execute skips), rate 1234 gives 1234. Handed on
    as the answer 0, the fail-over stops at this provider and Service.estimatefee falls back to a figure no provider gave."""
    q = 'services.bcoin:BcoinClient.estimatefee'
    fn = ctx.repo.func(q)
    n = 0
    for reply, want in (({'rate': 0}, False), ({'rate': 1234}, 1234)):
        it = Interp(ctx.repo, 'services.bcoin', hooks={'.compose_request': lambda it_, b, a, kw, st, node, reply=reply: dict(reply)}, self_cls='services.bcoin:BcoinClient')
        try:
            exits = it.run_function(fn, {'self': S(('var', 'self')), 'blocks': 3})
        except AnalysisError as e:
            ctx.undecided('BcoinClient.estimatefee not evaluable: %s' % str(e)[:100])
        rets = [e for e in exits if e.kind == 'return']
        if len(rets) != 1:
            ctx.undecided('BcoinClient.estimatefee: %d return paths on the reply %s' % (len(rets), reply))
        got = rets[0].value
        got = got if not isinstance(got, S) else show(term(got))
        n += 1
        ctx.saw('reply %s -> %r' % (reply, got))
        ctx.require(got == want and type(got) == type(want), q, 'the reply %s is answered with %r, expected %r' % (reply, got, want), fn,
                    'with a bcoin node that has no fee data ahead of a healthy provider, estimatefee() raises or returns the network default although the next provider has an estimate')
    ctx.floor(n, 2, 'replies')
