"""C02 Transaction verification is sound for standard inputs — counting structure, digest provenance, broadcast guard."""
import ast

from ..core import Property, AnalysisError, unparse, norm, walk_no_nested
from ..sym import Interp, S, term, show, subterms, State
from ..layout import LAYOUT_HOOKS, canon_layout
from ..cfg import build_cfg
from ..dfa import guards_of, ReachingDefs
from .. import intv, mut
from . import c01
from .common_sig import sigrange, argorder, verify_args

PROP = Property(
    'C02', 'Verifier soundness: True only through the m-of-n counting loop over valid (digest, signature, listed key) triples',
    'Static: in Input.verify every path to True (other than coinbase) leaves the loop `sigs_verified < sigs_required`; the counter is '
    'incremented only under a successful keys.verify(digest argument, a signature of this input, the key at the cursor); the key '
    'cursor advances on every iteration; no signatures => False; Transaction.verify visits every input on every call and returns '
    'False on the first failing one, with the digest of that input (C01 layouts reused so that every committed field is in the '
    'digest); Signature.__init__ range checks, verifier operand roles and argument precedence; the scripts re-serialized after '
    'signing are rebuilt from the current signatures; broadcast is guarded by verification. Completeness (a correctly signed '
    'transaction verifies) follows from C01 + ECDSA and is NOT decided.',
    ['fastecdsa is a correct ECDSA verifier', 'the preimage layouts of C01'])

SELF = ('var', 'self')
A = lambda b, n: ('attr', b, n)


def _is_const(node, v):
    return isinstance(node, ast.Constant) and node.value is v


@PROP.obligation('C02.count', canaries=[
    mut.cmpop('transactions', 'Input.verify', 'sigs_verified < self.sigs_required', ast.LtE, 'loop runs once more (harmless) / placeholder') if False else
    mut.replace_expr('transactions', 'Input.verify', 'sigs_verified < self.sigs_required', 'sigs_verified < self.sigs_required - 1', 'one signature fewer than required suffices'),
    mut.replace_stmt('transactions', 'Input.verify', 'if key_n >= len(self.keys):', 'if key_n >= len(self.keys):\n    self.valid = True\n    return True', 'running out of keys counts as success'),
    mut.drop_stmt('transactions', 'Input.verify', 'if not self.signatures', 'no signatures: falls into the loop'),
])
def count(ctx):
    """Input.verify: the only `return True` / `self.valid = True` besides the coinbase exit is reached by leaving the loop whose
    continuation test is sigs_verified < self.sigs_required through its FALSE edge; an input without signatures returns False."""
    q = 'transactions:Input.verify'
    fn = ctx.repo.func(q)
    g = build_cfg(fn)
    trues = [n for n in g.nodes if n.kind == 'return' and _is_const(n.ast.value, True)]
    loop_tests = [n for n in g.nodes if n.kind == 'test' and isinstance(n.ast, ast.Compare) and norm(n.ast) in ('sigs_verified < self.sigs_required', 'self.sigs_required > sigs_verified')]
    ctx.saw('return True sites: %d, counting-loop tests: %s' % (len(trues), [norm(n.ast) for n in loop_tests]))
    if len(loop_tests) != 1:
        others = [norm(n.ast) for n in g.nodes if n.kind == 'test' and 'sigs_verified' in unparse(n.ast)]
        ctx.violate(q, 'the continuation test of the counting loop is %s, expected sigs_verified < self.sigs_required' % (others or 'missing'), fn,
                    'verification can succeed with fewer valid signatures than required')
        return
    lt = loop_tests[0]
    cb = [n for n in g.nodes if n.kind == 'test' and "self.script_type == 'coinbase'" in norm(n.ast)]
    for r in trues:
        gs = guards_of(g, r.id)
        via_loop = (lt.id, 'F') in gs
        via_cb = any((c.id, 'T') in gs for c in cb)
        ctx.saw('return True at line %d: via loop exit=%s, coinbase=%s' % (r.ast.lineno, via_loop, via_cb))
        if not (via_loop or via_cb):
            ctx.violate(q, '`return True` at line %d is reachable without leaving the counting loop through sigs_verified >= sigs_required' % r.ast.lineno, r.ast,
                        'an input is reported valid without the required number of verified signatures')
    nosig = [n for n in g.nodes if n.kind == 'test' and norm(n.ast) in ('self.signatures', 'len(self.signatures)')]
    ok = False
    for n in nosig:
        f_edges = [s for s, l in n.succ if l == 'F']
        seen = g.reach(f_edges, skip_exc=True) if f_edges else {}
        # on the false edge (no signatures) the next return must be False before the loop
        rets = [g[i] for i in seen if g[i].kind == 'return']
        path = g.path_avoiding([lt.id], via=[r.id for r in rets if _is_const(r.ast.value, False)], start=f_edges[0]) if f_edges else [1]
        if path is None:
            ok = True
    ctx.saw('empty signature list returns False before the loop: %s' % ok)
    ctx.require(ok, q, 'an input without signatures is not rejected before the counting loop', fn,
                'with sigs_required == 0 or a mis-set counter such an input could verify')


@PROP.obligation('C02.incr', canaries=[
    mut.replace_stmt('transactions', 'Input.verify', 'key_n += 1', 'pass', 'key cursor never advances'),
    mut.replace_expr('transactions', 'Input.verify', 'verify(transaction_hash, sig, key)', 'verify(transaction_hash, sig, sig.public_key or key)', 'signature checked against the key it carries'),
    mut.replace_expr('transactions', 'Input.verify', 'verify(transaction_hash, sig, key)', 'verify(self.txid, sig, key)', 'signature checked against another message') if False else
    mut.replace_stmt('transactions', 'Input.verify', 'key = self.keys[key_n]', 'key = self.keys[0]', 'always the first key'),
])
def incr(ctx):
    """Every increment of the counter is control-dependent on the TRUE outcome of keys.verify(<digest parameter>, <a signature taken
    from self.signatures>, <self.keys[key cursor]>); the key cursor is incremented unconditionally in every iteration and never
    decremented, so each listed key position is consumed at most once."""
    q = 'transactions:Input.verify'
    fn = ctx.repo.func(q)
    g = build_cfg(fn)
    rd = ReachingDefs(fn, g)
    digest_param = [a.arg for a in fn.args.args][1]
    incs = [n for n in g.nodes if n.kind == 'stmt' and isinstance(n.ast, ast.AugAssign) and unparse(n.ast.target) == 'sigs_verified']
    ctx.floor(len(incs), 1, 'increments of the signature counter')
    for n in incs:
        if not isinstance(n.ast.op, ast.Add) or not _is_const(n.ast.value, 1) and not (isinstance(n.ast.value, ast.Constant) and n.ast.value.value == 1):
            ctx.violate(q, 'counter updated by `%s`' % norm(n.ast), n.ast)
        gs = [(g[t].ast, pol) for t, pol in guards_of(g, n.id)]
        vg = [(t, pol) for t, pol in gs if isinstance(t, ast.Call) and unparse(t.func) == 'verify']
        ctx.saw('counter increment at line %d guarded by %s' % (n.ast.lineno, [(norm(t), pol) for t, pol in vg]))
        if not any(pol == 'T' for t, pol in vg):
            ctx.violate(q, 'increment at line %d is not guarded by a successful verify(...) call' % n.ast.lineno, n.ast, 'signatures are counted without being checked')
            continue
        for t, pol in vg:
            if pol != 'T' or len(t.args) < 3:
                continue
            a0, a1, a2 = t.args[:3]
            ctx.require(isinstance(a0, ast.Name) and a0.id == digest_param, q, 'verify() is called with message `%s`, expected the digest parameter `%s`' % (unparse(a0), digest_param), t)
            nid = rd.node_of_ast(t)
            l1 = rd.leaves(a1, nid)
            l2 = rd.leaves(a2, nid)
            from_sigs = any(x == ('attr', 'self.signatures') for x in l1)
            from_keys = any(x == ('attr', 'self.keys') for x in l2) and not any(x[0] == 'attr' and x[1] != 'self.keys' and not x[1].startswith('self.keys') for x in l2 if x[0] == 'attr')
            key_by_cursor = any(x == ('name', 'key_n') or x[0] in ('aug', 'assign', 'cut') for x in l2) or 'key_n' in ''.join(unparse(d.value) for d in rd.reaching(nid, unparse(a2)) if d.value is not None)
            ctx.require(from_sigs, q, 'the signature operand `%s` does not come from self.signatures' % unparse(a1), t)
            ctx.require(from_keys, q, 'the key operand `%s` derives from %s, expected only self.keys' % (unparse(a2), sorted(x[1] for x in l2 if x[0] == 'attr')), t,
                        'a signature by a key outside the input\'s key set is accepted')
            ctx.require(key_by_cursor, q, 'the key operand `%s` is not selected by the key cursor' % unparse(a2), t, 'one listed key can satisfy several required signatures')
    # key cursor: incremented on every iteration
    loop = [n for n in walk_no_nested(fn) if isinstance(n, ast.While)]
    if len(loop) != 1:
        ctx.undecided('Input.verify: counting loop not found')
    top = [s for s in loop[0].body if isinstance(s, ast.AugAssign) and unparse(s.target) == 'key_n']
    anyw = [s for s in ast.walk(loop[0]) if isinstance(s, ast.AugAssign) and unparse(s.target) == 'key_n']
    ctx.saw('key cursor updates: %s (top level of the loop body: %d)' % ([norm(s) for s in anyw], len(top)))
    ctx.require(len(top) == 1 and isinstance(top[0].op, ast.Add) and len(anyw) == 1, q, 'the key cursor is not advanced exactly once per iteration (%s)' % [norm(s) for s in anyw], loop[0],
                'a key position can be reused / the loop does not terminate')
    # every path through the body that continues the loop passes the cursor increment
    if top:
        kid = [n.id for n in g.nodes if n.ast is top[0]]
        head = [n.id for n in g.nodes if n.kind == 'join']
        first = [n.id for n in g.nodes if n.ast is loop[0].body[0] or (n.kind == 'test' and n.ast is getattr(loop[0].body[0], 'test', None))]
        if kid and head and first:
            p = g.path_avoiding(head, via=kid, start=first[0])
            ctx.require(p is None, q, 'an iteration can continue without advancing the key cursor: %s' % (g.describe_path(p) if p else ''), loop[0])


@PROP.obligation('C02.all-inputs', canaries=[
    mut.insert_before('transactions', 'Transaction.verify', 'try:', 'if inp.valid:\n    continue', 'inputs that verified once are skipped'),
    mut.replace_stmt('transactions', 'Transaction.verify', 'if not self.verified:', 'if not self.verified:\n    continue', 'a failing input is skipped'),
    mut.replace_expr('transactions', 'Transaction.verify', 'self.inputs', 'self.inputs[:1]', 'only the first input is verified'),
])
def all_inputs(ctx):
    """Transaction.verify: the loop runs over all of self.inputs; on EVERY call each iteration reaches inp.verify(digest) (no skip on
    cached state); a falsy result or a falsy / failing digest returns False; True is returned only after the loop."""
    q = 'transactions:Transaction.verify'
    fn = ctx.repo.func(q)
    loops = [n for n in walk_no_nested(fn) if isinstance(n, ast.For)]
    if len(loops) != 1:
        ctx.undecided('Transaction.verify: %d loops' % len(loops))
    lp = loops[0]
    ctx.saw('loop: for %s in %s' % (unparse(lp.target), unparse(lp.iter)))
    ctx.require(unparse(lp.iter) == 'self.inputs', q, 'verification iterates over `%s`, expected self.inputs' % unparse(lp.iter), lp, 'some inputs are never verified')
    iv = unparse(lp.target)
    g = build_cfg(fn)
    head = [n.id for n in g.nodes if n.kind == 'for']
    vcalls = [n.id for n in g.nodes if n.ast is not None and n.kind in ('stmt', 'test') and any(isinstance(c, ast.Call) and unparse(c.func) == '%s.verify' % iv for c in ast.walk(n.ast))]
    if not head or not vcalls:
        ctx.violate(q, 'no call %s.verify(...) inside the loop' % iv, lp)
        return
    body_entry = [s for s, l in g[head[0]].succ if l == 'iter']
    # a path from the start of an iteration back to the loop head (next iteration) or to `return True` that avoids the call
    trues = [n.id for n in g.nodes if n.kind == 'return' and _is_const(n.ast.value, True)]
    p = g.path_avoiding(head + trues, via=vcalls, start=body_entry[0], skip_exc=True)
    ctx.saw('input verification call sites: %d; path skipping it: %s' % (len(vcalls), g.describe_path(p) if p else None))
    if p:
        ctx.violate(q, 'an iteration can proceed to the next input (or to success) without calling %s.verify: %s' % (iv, g.describe_path(p)), lp,
                    'after a change to the transaction an input that verified earlier (or failed) is not re-checked')
    # a digest that cannot be built (exception handler inside the loop) fails the transaction: no way from a handler back to the loop
    # head or to `return True` that avoids `return False`
    falses0 = [n.id for n in g.nodes if n.kind == 'return' and _is_const(n.ast.value, False)]
    for hn in [n for n in g.nodes if n.kind == 'handler']:
        ph = g.path_avoiding(head + trues, via=falses0 + vcalls, start=hn.id, skip_exc=True)
        ctx.saw('handler at line %s -> return False on every path: %s' % (getattr(hn.ast, 'lineno', '?'), ph is None))
        if ph is not None:
            ctx.violate(q, 'when the digest of an input cannot be built the loop goes on (%s) instead of failing the transaction' % g.describe_path(ph), hn.ast,
                        'a segwit input whose amount is 0 / unknown is skipped: verify() is True although that input was never checked')
    # result handling: not verified -> return False
    for t in trues:
        gs = guards_of(g, t)
        ctx.require((head[0], 'done') in [(a, b) for a, b in gs] or not any(g[a].kind == 'for' for a, b in gs) and _after_loop(g, head[0], t), q,
                    '`return True` is not placed after the loop over the inputs', g[t].ast)
    # a falsy verdict of inp.verify leads to `return False` before anything else
    falses = [n.id for n in g.nodes if n.kind == 'return' and _is_const(n.ast.value, False)]
    verdict_tests = [n for n in g.nodes if n.kind == 'test' and norm(n.ast) == 'self.verified']
    if not verdict_tests:
        ctx.violate(q, 'the verdict of %s.verify is never tested' % iv, lp, 'a failing input does not fail the transaction')
    for t in verdict_tests:
        f_succ = [s_ for s_, l in t.succ if l == 'F']
        p2 = g.path_avoiding(head + trues, via=falses, start=f_succ[0], skip_exc=True) if f_succ else [0]
        ctx.saw('failed input -> return False on every path: %s' % (p2 is None))
        if p2 is not None:
            ctx.violate(q, 'after a failing input the loop can continue (or succeed): %s' % g.describe_path(p2), t.ast,
                        'a transaction with an invalid input is reported valid')


def _after_loop(g, head, target):
    done = [s for s, l in g[head].succ if l == 'done']
    return bool(done) and target in g.reach(done) and target not in g.reach([s for s, l in g[head].succ if l == 'iter'], blocked_nodes=[head])


@PROP.obligation('C02.resign', canaries=[
    mut.replace_expr('transactions', 'Input.update_scripts', 'self.signatures and self.keys', 'self.signatures and self.keys and (not self.witnesses)', 'scripts are not rebuilt when the input was signed before', nth=0),
])
def resign(ctx):
    """Input.update_scripts (single-key inputs): whenever signatures and keys are present the witness list / scriptSig is rebuilt from
    the CURRENT first signature and key — independent of what an earlier signing left there."""
    q = 'transactions:Input.update_scripts'
    fn = ctx.repo.func(q)
    it = Interp(ctx.repo, 'transactions', hooks=LAYOUT_HOOKS, self_cls='transactions:Input', decide=lambda t: True if t in (A(SELF, 'public_hash'), A(SELF, 'signatures'), A(SELF, 'keys')) else None)
    st = State(env={})
    st.heap[A(SELF, 'script_type')] = 'sig_pubkey'
    exits = it.run_function(fn, {'hash_type': 1}, st)
    rets = [e for e in exits if e.kind == 'return']
    for e in rets:
        w = e.heap.get(A(SELF, 'witnesses'))
        wt = term(w) if w is not None else None
        ctx.saw('update_scripts(sig_pubkey, signed): witnesses = %s' % (show(wt)[:150] if wt is not None else 'unchanged'))
        sig0 = ('mcall', ('index', A(SELF, 'signatures'), 0), 'as_der_encoded', (), ())
        key0 = A(('index', A(SELF, 'keys'), 0), 'public_byte')
        ok = isinstance(wt, tuple) and wt[0] == 'list' and len(wt) == 3 and wt[1] == sig0 and wt[2] == key0
        if not ok:
            stale = wt is None or any(s == A(SELF, 'witnesses') for s in subterms(wt))
            ctx.violate(q, 'with signatures and keys present, witnesses is %s%s; expected [signatures[0].as_der_encoded(), keys[0].public_byte]' % (
                show(wt)[:120] if wt is not None else 'left unchanged', ' (depends on the previous witnesses)' if stale else ''), fn,
                'after re-signing, the serialized transaction still carries the old signature although verify() on the object succeeds')


@PROP.obligation('C02.broadcast', canaries=[
    mut.replace_expr('wallets', 'WalletTransaction.send', 'not self.verified and (not self.verify())', 'False', 'send does not verify') if False else
    mut.drop_stmt('wallets', 'WalletTransaction.send', 'if not self.verified and (not self.verify())', 'send no longer verifies before broadcasting'),
])
def broadcast(ctx):
    """WalletTransaction.send: the sendrawtransaction call is reachable only when `self.verified or self.verify()` held."""
    q = 'wallets:WalletTransaction.send'
    fn = ctx.repo.func(q)
    g = build_cfg(fn)
    sends = [n.id for n in g.nodes if n.ast is not None and n.kind in ('stmt', 'test') and 'sendrawtransaction' in unparse(n.ast)]
    if not sends:
        ctx.undecided('WalletTransaction.send: sendrawtransaction call not found')
    for sid in sends:
        gs = [(norm(g[t].ast), pol) for t, pol in guards_of(g, sid)]
        ctx.saw('sendrawtransaction guarded by %s' % gs)
        ok = any(('self.verify()' in t and pol == 'T') or (t == 'self.verified' and pol == 'T') for t, pol in gs) or \
            _verify_guard(g, sid)
        ctx.require(ok, q, 'the broadcast is not dominated by a successful verification (guards: %s)' % gs, g[sid].ast,
                    'an unsigned / under-signed transaction is pushed to the network')


def _verify_guard(g, sid):
    """`if not self.verified and not self.verify(): return` -> the send is reachable only via (verified TRUE) or (verify() TRUE)"""
    ver = [n.id for n in g.nodes if n.kind == 'test' and norm(n.ast) == 'self.verified']
    vfy = [n.id for n in g.nodes if n.kind == 'test' and norm(n.ast) == 'self.verify()']
    if not ver or not vfy:
        return False
    blocked = g.edges_of(ver[0], 'T') + g.edges_of(vfy[0], 'T')
    seen = g.reach([g.entry], blocked_edges=blocked)
    return sid not in seen


@PROP.obligation('C02.required', canaries=[
    mut.replace_expr('transactions', 'Input.update_scripts', 'n_tag - 80', 'n_tag - 81', 'threshold read from the redeem script is one too low'),
])
def required(ctx):
    """sigs_required used by the verifier is the OP_m of the redeem script (first byte - 80) once a redeem script with keys is known,
    else the constructor value (default 1, never 0)."""
    repo = ctx.repo
    q = 'transactions:Input.update_scripts'
    fn = repo.func(q)
    assigns = [n for n in walk_no_nested(fn) if isinstance(n, ast.Assign) and unparse(n.targets[0]) == 'self.sigs_required']
    ctx.saw('update_scripts sets sigs_required: %s' % [norm(a.value) for a in assigns])
    for a in assigns:
        ctx.require(norm(a.value) == 'n_tag - 80', q, 'sigs_required is set to `%s`, expected OP_m - 80 of the redeem script' % norm(a.value), a,
                    'the verifier demands fewer signatures than the script')
    tags = [n for n in walk_no_nested(fn) if isinstance(n, ast.Assign) and unparse(n.targets[0]) == 'n_tag']
    ctx.require(any(norm(t.value) == 'self.redeemscript[0:1]' for t in tags), q, 'n_tag is not the first byte of the redeem script', fn)
    q = 'transactions:Input.__init__'
    fn = repo.func(q)
    defaults = [n for n in walk_no_nested(fn) if isinstance(n, ast.Assign) and unparse(n.targets[0]) == 'self.sigs_required']
    ctx.saw('Input.__init__ sigs_required: %s' % [norm(d.value) for d in defaults])
    ok = any('1' in norm(d.value) for d in defaults) and not any(norm(d.value) in ('0', 'None') for d in defaults)
    ctx.require(ok, q, 'default sigs_required is %s, expected 1' % [norm(d.value) for d in defaults], fn)


PROP.obligation('C02.sigrange', canaries=[mut.cmpop('keys', 'Signature.__init__', 'self.s >= secp256k1_n', ast.Gt, 's == n accepted')])(sigrange)
PROP.obligation('C02.argorder', canaries=[mut.swap_args('keys', 'Signature.verify', 'verify', 2, 3, 'digest / Qx swapped')])(argorder)
PROP.obligation('C02.verify-args', canaries=[
    mut.replace_expr('keys', 'Signature.verify', 'public_key is not None', 'public_key is not None and (not self.public_key)', 'listed key ignored when the signature carries its own'),
])(verify_args)
PROP.obligation('C02.digest-bip143', canaries=[
    mut.replace_expr('transactions', 'Transaction.signature_segwit', 'int(self.inputs[sign_id].value)', '0', 'input amount not committed'),
])(c01.bip143)
PROP.obligation('C02.digest-legacy', canaries=[
    mut.drop_stmt('transactions', 'Transaction.raw', "r += self.locktime.to_bytes(4, 'little')", 'locktime not committed'),
])(c01.legacy)
PROP.obligation('C02.same-digest')(c01.same_digest)


from . import c01 as _c01
PROP.obligation('C02.indexes-follow-position', canaries=[
    mut.drop_stmt('transactions', 'Transaction.merge_transaction', 'self.shuffle()', 'merged inputs keep the index numbers they had in their own transactions'),
])(_c01.indexes_follow_position)


from . import c13 as _c13
PROP.obligation('C02.compact-signature')(_c13.parse)


from . import c06 as _c06
PROP.obligation('C02.output-script-kept')(_c06.output_script_kept)
