"""Shared obligation: completeness of memo keys (engine sa/cache.py) for the functions in a property's scope."""
import ast
import os

from ..core import AnalysisError, VERIF_DIR, unparse, norm
from .. import cache


def _fixture_selftest(ctx):
    """the detector must flag the two bad fixtures and stay silent on the two good ones (guards against a vacuous rule: the package has
    no keyed memo today)"""
    path = os.path.join(VERIF_DIR, 'fixtures', 'cache_memos.py')
    tree = ast.parse(open(path).read())
    cls = [n for n in tree.body if isinstance(n, ast.ClassDef)][0]
    res = {}
    for f in cls.body:
        if isinstance(f, ast.FunctionDef) and f.name != '__init__':
            ms = cache.keyed_memos(f, {'_shared'})
            if len(ms) != 1:
                raise AnalysisError('cache fixture %s: %d memos detected, expected 1' % (f.name, len(ms)))
            r = cache.check_memo(f, ms[0])
            res[f.name] = bool(r and (r[0] or r[1]))
    want = {'bad_param': True, 'good_param': False, 'bad_shared': True, 'good_shared': False}
    if res != want:
        raise AnalysisError('cache fixtures classified %s, expected %s' % (res, want))
    ctx.saw('memo detector self-test on fixtures: %s' % res)


def cache_keys(ctx, scopes, what):
    """``scopes``: list of (module, predicate on qualname)"""
    _fixture_selftest(ctx)
    n_fn = n_memo = 0
    for modname, pred in scopes:
        m = ctx.repo.mod(modname)
        modnames = set(ctx.repo.module_assigned_names(modname))
        for q, f in m.functions.items():
            if not pred(q):
                continue
            n_fn += 1
            for memo in cache.keyed_memos(f, modnames):
                n_memo += 1
                r = cache.check_memo(f, memo)
                qual = '%s:%s' % (modname, q)
                if r is None:
                    ctx.unsure('%s: memo %s not analysable' % (qual, memo.container))
                    continue
                miss_p, miss_a, kp, ka = r
                ctx.saw('%s: memo %s looked up with `%s` (depends on %s)' % (qual, memo.container, norm(memo.lookup_key), kp + ka))
                if miss_p or miss_a:
                    ctx.violate(qual, 'memo %s is looked up with `%s`, but the cached value also depends on %s' % (memo.container, norm(memo.lookup_key), ', '.join(miss_p + miss_a)), memo.store_node,
                                'two calls that differ only in %s share one cache entry: the second gets the result of the first' % ', '.join(miss_p + miss_a))
    # memoising decorators (functools.lru_cache / cache on methods): the key is (self, args) with self compared by the class's equality
    n_dec = 0
    for modname in sorted(set(mn for mn, _ in scopes)):
        m = ctx.repo.mod(modname)
        for cname, mname, deco, missing, custom_eq in cache.decorator_memos(m):
            n_dec += 1
            qual = '%s:%s.%s' % (modname, cname, mname)
            ctx.saw('%s is memoised by @%s; state read but not part of the key: %s' % (qual, deco, missing))
            if missing:
                ctx.violate(qual, '@%s keys the cache on (self, arguments); %s compares objects by %s, but the method also reads %s' % (
                    deco, cname, 'a subset of their state (__eq__ / __hash__)' if custom_eq else 'identity while these attributes change after construction', ', '.join('self.' + a for a in missing[:6])), ctx.repo.func(qual),
                            'two objects that are "equal" for the cache but differ in %s share one entry: the second gets the result computed for the first' % missing[0])
    ctx.saw('%s: %d functions scanned for keyed memos, %d found; %d decorator memos' % (what, n_fn, n_memo, n_dec))


def _attr_fixture_selftest(ctx):
    path = os.path.join(VERIF_DIR, 'fixtures', 'cache_memos.py')
    from ..core import ModuleInfo
    src = open(path).read()
    mi = ModuleInfo('fixture', 'fixtures/cache_memos.py', src, ast.parse(src))
    memos = cache.attr_memos(mi, 'AttrFixture')
    names = sorted(m.attr for m in memos)
    if names != ['_digest', '_tag']:
        raise AnalysisError('attribute-memo fixture: memos %s detected, expected _digest and _tag' % names)
    lazy = set(names) | set(a for x in memos for a in getattr(x, 'companions', ()))
    res = {}
    for m in memos:
        res[m.attr] = sorted('%s.%s' % (w[0], w[1]) for w in cache.stale_writers(mi, ['AttrFixture', 'AttrFixtureGood'], m, lazy))
    if res != {'_digest': ['AttrFixture.flip_bad'], '_tag': []}:
        raise AnalysisError('attribute-memo fixture classified %s' % res)
    ctx.saw('attribute-memo self-test on fixtures: %s' % res)


def attr_memos(ctx, modname, families, what, why):
    """``families``: list of class-name lists (a class and the subclasses that can change its state)"""
    _attr_fixture_selftest(ctx)
    m = ctx.repo.mod(modname)
    n = 0
    for fam in families:
        memos = []
        for c in fam:
            if c not in m.classes:
                raise AnalysisError('anchor class %s:%s vanished' % (modname, c))
            memos += cache.attr_memos(m, c)
        lazy = set(x.attr for x in memos) | set(a for x in memos for a in getattr(x, 'companions', ()))
        for memo in memos:
            n += 1
            qual = '%s:%s.%s' % (modname, memo.cls, memo.method)
            need = sorted(memo.deps - memo.validated - lazy)
            ctx.saw('%s caches self.%s; unvalidated state it depends on: %s' % (qual, memo.attr, need))
            unval = sorted(getattr(memo, 'param_deps', set()) - getattr(memo, 'param_validated', set()))
            if unval:
                ctx.violate(qual, 'the value cached in self.%s depends on the argument%s %s of %s.%s, which the reuse test does not compare: the first call decides what every later call returns' % (
                    memo.attr, 's' if len(unval) > 1 else '', ', '.join(unval), memo.cls, memo.method), memo.store, why)
            for cname, mname, attr, node in cache.stale_writers(m, fam, memo, lazy):
                ctx.violate('%s:%s.%s' % (modname, cname, mname), '%s.%s assigns self.%s, on which the cached self.%s (filled by %s.%s) depends, without resetting the cache' % (cname, mname, attr, memo.attr, memo.cls, memo.method), node, why)
    ctx.saw('%s: %d attribute memos analysed' % (what, n))
    return n


def history_reads(ctx, modname, families, what, why):
    """A memo whose value depends on the arguments of the call that filled it (Key._address_obj: the address for the compressed flag,
    prefix, script type and encoding asked for LAST) is history: only its own accessor, which re-validates it against the arguments, may
    read it. A property that hands the memo out unvalidated is history too. Every other method of the family that reads either one
    computes its result from whatever an earlier, unrelated call left behind."""
    m = ctx.repo.mod(modname)
    n = 0
    for fam in families:
        memos = []
        for c in fam:
            if c not in m.classes:
                raise AnalysisError('anchor class %s:%s vanished' % (modname, c))
            memos += cache.attr_memos(m, c)
        hist = {}
        for memo in memos:
            if getattr(memo, 'param_deps', None):
                hist.setdefault(memo.attr, set()).add(memo.method)
        # properties that return the memo as it is
        props = {}
        for c in fam:
            for name, f in cache.class_methods(m, c).items():
                if cache._is_property(f):
                    for r in ast.walk(f):
                        if isinstance(r, ast.Return) and isinstance(r.value, ast.Attribute) and isinstance(r.value.value, ast.Name) and r.value.value.id == 'self' and r.value.attr in hist:
                            props[name] = r.value.attr
        ctx.saw('%s: argument-dependent memos %s; properties handing them out: %s' % ('/'.join(fam), sorted(hist), sorted(props)))
        # another memo must not be filled from an argument-dependent one (or from the arguments) by a method that is not its accessor:
        # the argument dependence would leak into a value that is later reused without any validation
        accessors = {}
        for memo in memos:
            accessors.setdefault(memo.attr, set()).add(memo.method)
        for c in fam:
            for name, f in sorted(cache.class_methods(m, c).items()):
                if name == '__init__':
                    continue
                params = set(a.arg for a in f.args.args[1:] + f.args.kwonlyargs)
                for s_ in ast.walk(f):
                    if not isinstance(s_, ast.Assign):
                        continue
                    for t in s_.targets:
                        if not (isinstance(t, ast.Attribute) and isinstance(t.value, ast.Name) and t.value.id == 'self' and t.attr in accessors and name not in accessors[t.attr]):
                            continue
                        if t.attr in hist:
                            continue
                        if isinstance(s_.value, ast.Constant) and s_.value.value in (None, '', b'', False, 0):
                            continue
                        reads_hist = sorted(set(a.attr for a in ast.walk(s_.value) if isinstance(a, ast.Attribute) and isinstance(a.value, ast.Name) and a.value.id == 'self' and (a.attr in hist or a.attr in props)))
                        reads_par = sorted(set(a.id for a in ast.walk(s_.value) if isinstance(a, ast.Name) and a.id in params))
                        if reads_hist or reads_par:
                            n += 1
                            ctx.violate('%s:%s.%s' % (modname, c, name), '%s.%s fills the memo self.%s (accessor: %s) from %s, which depends on the arguments of the call: the value is reused later without validation' % (
                                c, name, t.attr, '/'.join(sorted(accessors[t.attr])), ', '.join(['self.' + x for x in reads_hist] + reads_par)), s_, why)
        for c in fam:
            for name, f in sorted(cache.class_methods(m, c).items()):
                if name == '__init__' or name in props:
                    continue
                for a in ast.walk(f):
                    if isinstance(a, ast.Attribute) and isinstance(a.value, ast.Name) and a.value.id == 'self' and isinstance(a.ctx, ast.Load):
                        memo_attr = a.attr if a.attr in hist else props.get(a.attr)
                        if memo_attr is None or name in hist.get(memo_attr, ()):
                            continue
                        n += 1
                        ctx.violate('%s:%s.%s' % (modname, c, name), 'reads self.%s, i.e. the value the last %s(...) call left in self.%s for ITS arguments, instead of asking the accessor for the form it needs' % (
                            a.attr, '/'.join(sorted(hist[memo_attr])), memo_attr), a, why)
    ctx.saw('%s: reads of argument-dependent memos outside their accessor: %d' % (what, n))
    return n
