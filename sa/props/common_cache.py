"""Shared obligation: completeness of memo keys (engine sa/cache.py) for the functions in a property's scope."""
import ast
import os

from ..core import AnalysisError, VERIF_DIR, unparse, norm
from .. import cache


def _fixture_selftest(ctx):
    """the detector must flag the two bad fixtures and stay silent on the two good ones (guards against a vacuous rule: the package has
    no keyed memo today)"""
    path = os.path.join(VERIF_DIR, 'fixtures', 'cache_memos.py')
    tree = ast.parse(open(path).read())
    cls = [n for n in tree.body if isinstance(n, ast.ClassDef)][0]
    res = {}
    for f in cls.body:
        if isinstance(f, ast.FunctionDef) and f.name != '__init__':
            ms = cache.keyed_memos(f, {'_shared'})
            if len(ms) != 1:
                raise AnalysisError('cache fixture %s: %d memos detected, expected 1' % (f.name, len(ms)))
            r = cache.check_memo(f, ms[0])
            res[f.name] = bool(r and (r[0] or r[1]))
    want = {'bad_param': True, 'good_param': False, 'bad_shared': True, 'good_shared': False}
    if res != want:
        raise AnalysisError('cache fixtures classified %s, expected %s' % (res, want))
    ctx.saw('memo detector self-test on fixtures: %s' % res)


def cache_keys(ctx, scopes, what):
    """``scopes``: list of (module, predicate on qualname)"""
    _fixture_selftest(ctx)
    n_fn = n_memo = 0
    for modname, pred in scopes:
        m = ctx.repo.mod(modname)
        modnames = set(ctx.repo.module_assigned_names(modname))
        for q, f in m.functions.items():
            if not pred(q):
                continue
            n_fn += 1
            for memo in cache.keyed_memos(f, modnames):
                n_memo += 1
                r = cache.check_memo(f, memo)
                qual = '%s:%s' % (modname, q)
                if r is None:
                    ctx.unsure('%s: memo %s not analysable' % (qual, memo.container))
                    continue
                miss_p, miss_a, kp, ka = r
                ctx.saw('%s: memo %s looked up with `%s` (depends on %s)' % (qual, memo.container, norm(memo.lookup_key), kp + ka))
                if miss_p or miss_a:
                    ctx.violate(qual, 'memo %s is looked up with `%s`, but the cached value also depends on %s' % (memo.container, norm(memo.lookup_key), ', '.join(miss_p + miss_a)), memo.store_node,
                                'two calls that differ only in %s share one cache entry: the second gets the result of the first' % ', '.join(miss_p + miss_a))
    ctx.saw('%s: %d functions scanned for keyed memos, %d found' % (what, n_fn, n_memo))
