"""C10 Multisig cosigners — canonical key order on both sides, signature positions, threshold, hand-off keeps signed fields, broadcast gate."""
import ast

from ..core import Property, AnalysisError, unparse, norm, walk_no_nested
from ..sym import Interp, S, term, show, State
from ..cfg import build_cfg
from ..dfa import ReachingDefs
from ..query import parse_chain
from .. import mut

PROP = Property(
    'C10', 'Multisig: one canonical key order for addresses and spends, signatures placed at the position of their key, threshold not overridden, hand-off keeps every signed field, broadcast only after verification',
    'Static: (1) the redeem script of a wallet address (Wallet._new_key_multisig) and the one rebuilt when spending (Input.__init__ / '
    'update_scripts via transaction_create) both use the public keys sorted by their bytes and the wallet threshold: every call site is '
    'checked for sort / sigs_required; the witness type -> script type map is evaluated for all three types; (2) Transaction.sign puts a new '
    'signature at the index of its key in the key list and existing signatures at the index of the key they are bound to; Input.verify '
    'verifies (and thereby binds) the live Signature objects of the input; (3) the threshold given to an Input is not replaced by the '
    'default of a parsed script that carries no keys; Input.verify counts up to sigs_required; (4) the three import paths (object, '
    'dictionary, raw) restore locktime and version after transaction_create and carry the sequence of every input; (5) '
    'WalletTransaction.send reaches the broadcast call only when the transaction is verified. '
    'Validity of the final spend over all signing orders is NOT decided (needs the signature algebra).',
    ['ECDSA verification (C02/C13)', 'sorting bytes objects is a total order'])

SELF = ('var', 'self')


def _sort_key_attr(call):
    """list.sort(key=lambda x: x.<attr>) -> attr"""
    for k in call.keywords:
        if k.arg == 'key' and isinstance(k.value, ast.Lambda) and isinstance(k.value.body, ast.Attribute) and isinstance(k.value.body.value, ast.Name) \
                and k.value.body.value.id == k.value.args.args[0].arg:
            return k.value.body.attr
    return None


def multisig_scenario(ctx, sort_keys, key_ids, pubs, m):
    """Wallet._new_key_multisig evaluated as a whole for cosigner key objects with the given ids / public keys (the first one is this
    wallet's own): returns the keyword arguments of the Script(...) it builds and the DbKeyMultisigChildren rows it adds."""
    q = 'wallets:Wallet._new_key_multisig'
    fn = ctx.repo.func(q)
    A = lambda b, n: ('attr', b, n)
    heap = {A(SELF, 'sort_keys'): sort_keys, A(SELF, 'cosigner_id'): 0, A(SELF, 'multisig_n_required'): m}
    objs = []
    for i, kid in enumerate(key_ids):
        K = ('var', 'key%d' % kid)
        heap.update({A(K, 'key_public'): pubs[kid], A(K, 'key_id'): kid, A(K, 'path'): "m/45'/0/0" if i == 0 else 'M/0/0', A(A(K, 'wallet'), 'cosigner_id'): i})
        objs.append(S(K))
    script, kids = [], []

    def h_script(it, args, kwargs, st, node):
        script.append({k: (v if isinstance(v, (int, bytes, str)) else ([term(x) for x in v] if isinstance(v, list) else term(v))) for k, v in kwargs.items()})
        return S(('var', 'script'))

    def h_child(it, args, kwargs, st, node):
        kids.append({k: (v if isinstance(v, int) else term(v)) for k, v in kwargs.items()})
        return S(('var', 'child'))

    def decide(t):
        # the address is new: the lookup of an existing key with that address finds nothing
        if isinstance(t, tuple) and t and t[0] == 'mcall' and t[2] == 'first':
            return False
        return None
    it = Interp(ctx.repo, 'wallets', hooks={'Script': h_script, 'DbKeyMultisigChildren': h_child}, self_cls='wallets:Wallet', decide=decide)
    names = [a.arg for a in fn.args.args]
    args = {'self': S(SELF), 'public_keys': objs, 'name': '', 'account_id': 0, 'change': 0, 'cosigner_id': 0, 'network': 'bitcoin', 'address_index': 0, 'witness_type': 'segwit'}
    if set(names) - set(args):
        ctx.undecided('_new_key_multisig has parameters this scenario does not bind: %s' % sorted(set(names) - set(args)))
    try:
        exits = it.run_function(fn, {k: v for k, v in args.items() if k in names}, State(heap=heap))
    except AnalysisError as e:
        ctx.undecided('_new_key_multisig not evaluable for %d cosigner keys, sort_keys=%s: %s' % (len(key_ids), sort_keys, str(e)[:100]))
    if not any(e.kind == 'return' for e in exits) or len(script) != 1:
        ctx.undecided('_new_key_multisig scenario: %d normal exits, %d redeem scripts built' % (sum(1 for e in exits if e.kind == 'return'), len(script)))
    return script[0], kids


@PROP.obligation('C10.sorted-keys', canaries=[
    mut.drop_stmt('wallets', 'Wallet._new_key_multisig', 'public_keys.sort(', 'address redeem script built in cosigner order'),
    mut.replace_expr('wallets', 'Wallet.transaction_create', 'self.sort_keys', 'False', 'spend redeem script built in stored key order', nth=1),
    mut.replace_expr('wallets', 'Wallet._new_key_multisig', 'self.multisig_n_required', 'len(public_key_list)', 'address redeem script requires all keys'),
    mut.replace_expr('wallets', 'WalletTransaction.add_input_from_wallet', 'self.hdwallet.multisig_n_required', 'None', 'inputs added from the wallet fall back to the default threshold'),
])
def sorted_keys(ctx):
    """Address side: Wallet._new_key_multisig, evaluated as a whole for three cosigner key objects given out of order, builds
    Script(['multisig'], keys, sigs_required) from the public keys in byte order (under self.sort_keys; as given otherwise) and the wallet threshold; Wallet.create sorts the cosigner list by public_byte. Spend side:
    every transaction.add_input of transaction_create passes sort=self.sort_keys and sigs_required=self.multisig_n_required, and
    Input.__init__ sorts self.keys by public_byte when sort is set. WalletKey.key_public is the stored public key bytes."""
    q = 'wallets:Wallet._new_key_multisig'
    fn = ctx.repo.func(q)
    pubs = {7: b'\x03' * 33, 5: b'\x02' * 33, 9: b'\x02' + b'\x01' * 32}
    for sort_keys in (True, False):
        script, kids = multisig_scenario(ctx, sort_keys, [7, 5, 9], pubs, 2)
        want = sorted(pubs.values()) if sort_keys else [pubs[7], pubs[5], pubs[9]]
        ctx.saw('_new_key_multisig, sort_keys=%s: cosigner keys %s -> script keys %s, sigs_required %s' % (sort_keys, ['%02x..' % pubs[k][0] + '%02x' % pubs[k][1] for k in (7, 5, 9)],
                                                                                                  ['%02x..%02x' % (k[0], k[1]) if isinstance(k, bytes) else show(k)[:12] for k in script.get('keys', [])], show(script.get('sigs_required'))[:20]))
        ctx.require(script.get('keys') == want, q, 'with sort_keys=%s the redeem script of an address is built from the keys in %s order' % (sort_keys, 'cosigner' if sort_keys else 'another'), fn,
                    'cosigner wallets that received the keys in another order derive another address')
        ctx.require(script.get('sigs_required') == 2, q, 'the address redeem script of a 2-of-3 wallet is built with sigs_required=%s, not the wallet threshold' % show(script.get('sigs_required'))[:40], fn,
                    'the address does not commit to m of the sorted keys')
    # WalletKey.key_public = stored public key
    wk = ctx.repo.func('wallets:WalletKey.__init__')
    kp = [norm(n.value) for n in ast.walk(wk) if isinstance(n, ast.Assign) and norm(n.targets[0]) == 'self.key_public']
    ctx.require(bool(kp) and all('wk.public' in v for v in kp), 'wallets:WalletKey.__init__', 'key_public is %s, expected the stored public key' % kp, wk)
    # Wallet.create
    q = 'wallets:Wallet.create'
    fn = ctx.repo.func(q)
    cs = [c for n in ast.walk(fn) if isinstance(n, ast.If) and norm(n.test) == 'sort_keys' for s in n.body if isinstance(s, ast.Expr) and isinstance(s.value, ast.Call) and norm(s.value.func) == 'hdkey_list.sort' for c in [s.value]]
    ctx.saw('Wallet.create sorts: %s' % [norm(c) for c in cs])
    ctx.require(bool(cs) and _sort_key_attr(cs[0]) == 'public_byte', q, 'cosigner keys are not sorted by public_byte when sort_keys is set', fn, 'cosigner ids differ between the cosigner wallets')
    # spend side
    q = 'wallets:Wallet.transaction_create'
    fn = ctx.repo.func(q)
    adds = [c for c in ast.walk(fn) if isinstance(c, ast.Call) and norm(c.func) == 'transaction.add_input']
    ctx.floor(len(adds), 2, 'add_input calls in transaction_create')
    for c in adds:
        kwn = {k.arg: k.value for k in c.keywords}
        why = 'the redeem script rebuilt for the spend differs from the one of the address'
        ctx.match(q, 'argument sort of add_input', kwn.get('sort'), 'self.sort_keys', fn, c, why)
        ctx.match(q, 'argument sigs_required of add_input', kwn.get('sigs_required'), 'self.multisig_n_required', fn, c, why)
        ctx.require('keys' in kwn, q, 'add_input is called without the keys of the wallet key', c, why)
    # every other place of the wallet module that builds an input from wallet keys (add_input_from_wallet: hand-built spends, bumpfee)
    m = ctx.repo.mod('wallets')
    others = 0
    for qn, f in sorted(m.functions.items()):
        if qn == 'Wallet.transaction_create':
            continue
        owner = 'self.hdwallet' if qn.startswith('WalletTransaction.') else 'self'
        for c in ast.walk(f):
            if not (isinstance(c, ast.Call) and isinstance(c.func, ast.Attribute) and c.func.attr == 'add_input' and any(k.arg == 'keys' for k in c.keywords)):
                continue
            others += 1
            kwn = {k.arg: k.value for k in c.keywords}
            why = 'an input added this way in an m-of-n wallet is built as 1-of-n (the default threshold): it verifies with one signature for the builder and never for the next cosigner'
            ctx.saw('%s: %s' % (qn, norm(c)[:120]))
            ctx.match('wallets:' + qn, 'argument sort of add_input', kwn.get('sort'), owner + '.sort_keys', f, c, why)
            ctx.match('wallets:' + qn, 'argument sigs_required of add_input', kwn.get('sigs_required'), owner + '.multisig_n_required', f, c, why)
    ctx.floor(others, 1, 'add_input calls with wallet keys outside transaction_create')
    q = 'transactions:Input.__init__'
    fn = ctx.repo.func(q)
    ss = [c for n in walk_no_nested(fn) if isinstance(n, ast.If) and norm(n.test) == 'self.sort' for s in n.body if isinstance(s, ast.Expr) and isinstance(s.value, ast.Call) and norm(s.value.func) == 'self.keys.sort' for c in [s.value]]
    ctx.saw('Input.__init__ sorts: %s' % [norm(c) for c in ss])
    ctx.require(bool(ss) and _sort_key_attr(ss[0]) == 'public_byte', q, 'input keys are not sorted by public_byte when sort is set', fn)
    q = 'transactions:Input.update_scripts'
    fn = ctx.repo.func(q)
    rs = [c for c in ast.walk(fn) if isinstance(c, ast.Call) and norm(c.func) == 'Script' and any(k.arg == 'script_types' and norm(k.value) == "['multisig']" for k in c.keywords)]
    if not rs:
        ctx.undecided('Input.update_scripts: redeem script construction not found')
    kwn = {k.arg: k.value for k in rs[0].keywords}
    ctx.match(q, 'keys of the spend redeem script', kwn.get('keys'), 'self.keys', fn, rs[0])
    ctx.match(q, 'threshold of the spend redeem script', kwn.get('sigs_required'), 'self.sigs_required', fn, rs[0])


@PROP.obligation('C10.script-type', canaries=[
    mut.replace_expr('wallets', 'Wallet._new_key_multisig', "'p2sh_p2wsh' if witness_type == 'p2sh-segwit' else 'p2wsh'", "'p2wsh'", 'nested segwit wallets get native addresses'),
])
def script_type(ctx):
    """Wallet._new_key_multisig: witness type legacy -> p2sh, p2sh-segwit -> p2sh_p2wsh, segwit -> p2wsh (evaluated), and the Address is
    built from the redeem script with that script type, the network and the witness type."""
    q = 'wallets:Wallet._new_key_multisig'
    fn = ctx.repo.func(q)
    asg = [n for n in walk_no_nested(fn) if isinstance(n, ast.Assign) and norm(n.targets[0]) == 'script_type']
    if len(asg) != 1:
        ctx.undecided('_new_key_multisig: script type selection not found')
    it = Interp(ctx.repo, 'wallets', self_cls='wallets:Wallet')
    got = {}
    for wt in ('legacy', 'p2sh-segwit', 'segwit'):
        got[wt] = it.eval(asg[0].value, State(env={'witness_type': wt, 'self': S(SELF)}))
    ctx.saw('witness type -> script type: %s' % got)
    exp = {'legacy': 'p2sh', 'p2sh-segwit': 'p2sh_p2wsh', 'segwit': 'p2wsh'}
    ctx.require(got == exp, q, 'script types per witness type are %s, expected %s' % (got, exp), asg[0], 'cosigner wallets of that type hand out addresses of another type')
    ad = [c for c in ast.walk(fn) if isinstance(c, ast.Call) and norm(c.func) == 'Address']
    kw = {k.arg: norm(k.value) for k in ad[0].keywords} if ad else {}
    if not ad or not ad[0].args:
        ctx.undecided('_new_key_multisig: Address(...) construction not found')
    kwn = {k.arg: k.value for k in ad[0].keywords}
    ctx.match(q, 'data of the multisig address', ad[0].args[0], 'redeemscript', None, ad[0])
    for name in ('script_type', 'network', 'witness_type'):
        ctx.match(q, 'argument %s of the multisig address' % name, kwn.get(name), name, None, ad[0])


@PROP.obligation('C10.sig-position', canaries=[
    mut.replace_expr('transactions', 'Transaction.sign', 'pub_key_list.index(key.public_byte)', 'n_signs', 'new signatures placed in signing order'),
    mut.replace_expr('transactions', 'Transaction.sign', 'pub_key_list.index(sig.public_key.public_byte)', "sig_domain.index('')", 'existing signatures placed in the first free slot'),
])
def sig_position(ctx):
    """Transaction.sign: pub_key_list = [k.public_byte for k in self.inputs[tid].keys]; a new signature goes to
    sig_domain[pub_key_list.index(key.public_byte)], an existing signature with a bound key to
    sig_domain[pub_key_list.index(sig.public_key.public_byte)], and the input keeps [s for s in sig_domain if s != ''] — the key order."""
    q = 'transactions:Transaction.sign'
    fn = ctx.repo.func(q)
    defs = {}
    for n in ast.walk(fn):
        if isinstance(n, ast.Assign):
            defs.setdefault(norm(n.targets[0]), []).append(n.value)
    ctx.saw('pub_key_list = %s ; newsig_pos = %s' % ([norm(v) for v in defs.get('pub_key_list', [])], [norm(v) for v in defs.get('newsig_pos', [])]))
    want = {
        'pub_key_list': ['[k.public_byte for k in self.inputs[tid].keys]'],
        'newsig_pos': ['pub_key_list.index(key.public_byte)', 'pub_key_list.index(sig.public_key.public_byte)'],
        'sig_domain[newsig_pos]': ['sig', 'sig'],
        'self.inputs[tid].signatures': ["[s for s in sig_domain if s != '']"],
        'sig_domain': ["[''] * n_total_sigs"],
        'n_total_sigs': ['len(self.inputs[tid].keys)'],
    }
    why = 'signatures end up out of key order: the spend never verifies'
    for name, exps in want.items():
        got = defs.get(name)
        if got is None or len(got) != len(exps):
            ctx.unsure('%s: `%s` is assigned %s times, the rule knows %d (renamed or restructured)' % (q, name, len(got or []), len(exps)))
            continue
        for g, e in zip(got, exps):
            if norm(g) == e:
                continue
            # a position / key list built from something else than the key order is the violation this rule is about
            txt = norm(g)
            if name == 'newsig_pos' and '.index(' in txt and 'public_byte' in txt and 'pub_key_list' in txt:
                ctx.unsure('%s: signature position `%s` not recognised' % (q, txt))
            elif name in ('newsig_pos', 'pub_key_list', 'self.inputs[tid].signatures'):
                ctx.violate(q, '`%s` is computed as `%s`, expected `%s`' % (name, txt, e), g, why)
            else:
                ctx.unsure('%s: `%s` is `%s`, expected `%s`' % (q, name, txt, e))


@PROP.obligation('C10.live-binding', canaries=[
    mut.replace_expr('transactions', 'Input.verify', 'self.signatures[sig_n]', 'deepcopy(self.signatures[sig_n])', 'signatures verified on copies'),
])
def live_binding(ctx):
    """Input.verify passes the input's own Signature objects to verify(): Signature.verify binds the key to the object
    (self.public_key = public_key) and Transaction.sign places existing signatures by that binding; a copy would leave signatures that
    arrive without key (dictionary hand-off) unbound."""
    q = 'transactions:Input.verify'
    fn = ctx.repo.func(q)
    rd = ReachingDefs(fn)
    calls = [c for c in ast.walk(fn) if isinstance(c, ast.Call) and norm(c.func) == 'verify' and len(c.args) >= 2]
    ctx.floor(len(calls), 1, 'verify calls in Input.verify')
    counted = []
    for n in ast.walk(fn):
        if isinstance(n, ast.If) and any(c in list(ast.walk(n.test)) for c in calls) and any(isinstance(s, ast.AugAssign) and norm(s.target) == 'sigs_verified' for s in n.body) \
                and any(isinstance(s, ast.AugAssign) and norm(s.target) == 'sig_n' for s in n.body):
            counted += [c for c in calls if c in list(ast.walk(n.test))]
    if not counted:
        ctx.undecided('Input.verify: the verify call that advances the signature index not found')
    for c in counted:
        nid = rd.node_of_ast(c)
        lv = rd.leaves(c.args[1], nid)
        copies = [x for x in lv if x[0] == 'call' and x[1].split('.')[-1] in ('deepcopy', 'copy')]
        src = [x for x in lv if x[0] == 'attr' and x[1] == 'self.signatures']
        ctx.saw('verify(%s): signature comes from %s' % (', '.join(norm(a) for a in c.args), sorted(str(x) for x in lv if x[0] in ('attr', 'call'))))
        ctx.require(bool(src) and not copies, q, 'the signature verified in the main step is %s' % ('a copy (%s)' % copies[0][1] if copies else 'not an element of self.signatures'), c,
                    'signatures imported without public key stay unbound and are placed in the first free slot by Transaction.sign')
    sv = ctx.repo.func('keys:Signature.verify')
    bind = [n for n in ast.walk(sv) if isinstance(n, ast.Assign) and norm(n.targets[0]) == 'self.public_key' and norm(n.value) == 'public_key']
    ctx.require(bool(bind), 'keys:Signature.verify', 'Signature.verify no longer binds the key it was given', sv)


@PROP.obligation('C10.threshold', canaries=[
    mut.replace_expr('transactions', 'Input.__init__', 'script.keys or not sigs_required', 'True', 'threshold argument replaced by the default of a parsed script'),
    mut.replace_stmt('transactions', 'Input.__init__', 'if script.keys or not sigs_required:', 'sigs_required = script.sigs_required or sigs_required', 'threshold argument only a fallback for the never-empty threshold of the parsed script'),
    mut.replace_expr('transactions', 'Input.verify', 'sigs_verified < self.sigs_required', 'sigs_verified < 1', 'one signature suffices'),
])
def threshold(ctx):
    """Input.__init__: the sigs_required argument is replaced by the value of the parsed unlocking script only when that script carries keys
    (or no argument was given): a script without keys, such as the P2SH push of a P2SH-P2WSH input, has the uninformative default 1.
    Input.verify loops until sigs_required
    signatures verified and fails when keys or signatures run out."""
    q = 'transactions:Input.__init__'
    fn = ctx.repo.func(q)
    blk = [n for n in fn.body if isinstance(n, ast.If) and 'self.unlocking_script' in norm(n.test) and any(isinstance(c, ast.Call) and norm(c.func) == 'Script.parse_bytes' for c in ast.walk(n))]
    if len(blk) != 1:
        ctx.undecided('Input.__init__: the block that parses a given unlocking script was not found')
    SC = ('var', 'parsed_script')
    n_sc = 0
    # (caller's sigs_required, keys found in the scriptSig, threshold the parsed script reports, expected outcome)
    for given, has_keys, script_m, want in ((2, False, 1, 2), (3, False, 1, 3), (None, False, 1, 1), (None, True, 2, 2), (1, True, 2, 2), (2, True, 2, 2)):
        hooks = {'Script.parse_bytes': lambda it, a, kw, st, node: S(SC)}
        it = Interp(ctx.repo, 'transactions', hooks=hooks, self_cls='transactions:Input', decide=lambda t: True if t == ('attr', SELF, 'unlocking_script') else None)
        st = State(env={'self': S(SELF), 'sigs_required': given, 'signatures': None, 'keys': None, 'strict': True})
        st.heap[('attr', SELF, 'unlocking_script')] = b'\x22\x00\x20' + bytes(range(32))      # the push of a witness program
        st.heap[('attr', SELF, 'script_type')] = 'p2sh_p2wsh'
        st.heap[('attr', SC, 'keys')] = [S(('var', 'k1')), S(('var', 'k2'))] if has_keys else []
        st.heap[('attr', SC, 'signatures')] = []
        st.heap[('attr', SC, 'sigs_required')] = script_m
        st.heap[('attr', SC, 'script_types')] = ['p2sh_p2wsh']
        it.frames.append([])
        try:
            end = it.exec_block(blk, st)
        except AnalysisError as e:
            ctx.undecided('Input.__init__: unlocking-script block not evaluable: %s' % str(e)[:100])
        it.frames.pop()
        if end is None:
            ctx.undecided('Input.__init__: unlocking-script block raises in the scenario')
        got = end.env.get('sigs_required')
        got = got if not isinstance(got, S) else show(term(got))
        n_sc += 1
        ctx.saw('sigs_required=%s given, scriptSig %s (its parsed threshold %d) -> sigs_required %s' % (given, 'with keys' if has_keys else 'without keys', script_m, got))
        ctx.require(got == want, q, 'sigs_required=%s given, unlocking script %s keys: the input continues with sigs_required=%s, expected %s' % (given, 'with' if has_keys else 'WITHOUT', got, want), blk[0],
                    'an unsigned 2-of-3 P2SH-P2WSH input handed to a cosigner wallet (its scriptSig is only the push of the witness program) is rebuilt as 1-of-3: verify() is True and send() broadcasts after ONE signature')
    ctx.floor(n_sc, 6, 'threshold scenarios')
    q = 'transactions:Input.update_scripts'
    fn = ctx.repo.func(q)
    nt = [norm(n.value) for n in ast.walk(fn) if isinstance(n, ast.Assign) and norm(n.targets[0]) == 'self.sigs_required']
    ctx.require(nt == ['n_tag - 80'], q, 'sigs_required is derived from the redeem script as %s' % nt, fn)
    # exactly m signatures are written: inside the block that builds the multisig unlocking script / witness every read of self.signatures
    # is the slice self.signatures[:self.sigs_required] (Input.signatures keeps every signature that was ever added)
    blk = [n for n in ast.walk(fn) if isinstance(n, ast.If) and 'len(signatures) >= self.sigs_required' in norm(n.test)]
    if not blk:
        ctx.undecided('Input.update_scripts: block that writes the multisig unlocking script not found')
    parents2 = {}
    for p in ast.walk(blk[0]):
        for c in ast.iter_child_nodes(p):
            parents2[c] = p
    nreads = 0
    for a in ast.walk(blk[0]):
        if isinstance(a, ast.Attribute) and norm(a) == 'self.signatures' and isinstance(a.ctx, ast.Load) and not any(a is x for x in ast.walk(blk[0].test)):
            nreads += 1
            par = parents2.get(a)
            sliced = isinstance(par, ast.Subscript) and par.value is a and isinstance(par.slice, ast.Slice) and par.slice.lower is None and par.slice.upper is not None and norm(par.slice.upper) == 'self.sigs_required'
            if not sliced:
                ctx.violate(q, 'the multisig unlocking script / witness is built from `%s`, i.e. from every signature the input holds, not from the first sigs_required' % norm(par if par is not None else a)[:80], a,
                            'once more than m cosigners have signed (all three of a 2-of-3) the witness carries m+1 signatures: consensus-invalid, while verify() stops counting at m and send() reports success')
    ctx.saw('multisig unlocking script: %d reads of self.signatures, each sliced to sigs_required' % nreads)
    ctx.floor(nreads, 1, 'reads of self.signatures in the multisig block')
    q = 'transactions:Input.verify'
    fn = ctx.repo.func(q)
    loops = [n for n in walk_no_nested(fn) if isinstance(n, ast.While)]
    ctx.require(len(loops) == 1 and norm(loops[0].test) == 'sigs_verified < self.sigs_required', q, 'verification loop runs while %s' % (norm(loops[0].test) if loops else '?'), fn,
                'fewer than m signatures verify')
    if loops:
        rets = [norm(s.test) for s in loops[0].body if isinstance(s, ast.If) and any(isinstance(x, ast.Return) and isinstance(x.value, ast.Constant) and x.value.value is False for x in s.body)]
        ctx.saw('verify loop fails on %s' % rets)
        ctx.require('key_n >= len(self.keys)' in rets and 'sig_n >= len(self.signatures)' in rets, q, 'the loop does not fail when keys or signatures run out', loops[0])


IMPORTS = [('wallets:Wallet.transaction_import', 'isinstance(t, Transaction)', 't.locktime', 't.version'),
           ('wallets:Wallet.transaction_import', 'isinstance(t, dict)', "t['locktime']", "t['version'].to_bytes(4, 'big')"),
           ('wallets:Wallet.transaction_import_raw', None, 't_import.locktime', 't_import.version')]


@PROP.obligation('C10.import-fields', canaries=[
    mut.drop_stmt('wallets', 'Wallet.transaction_import', 'rt.locktime = t.locktime', 'locktime of an imported transaction object left to transaction_create'),
    mut.drop_stmt('wallets', 'Wallet.transaction_import_raw', 'rt.locktime = t_import.locktime', 'locktime of an imported raw transaction left to transaction_create'),
    mut.drop_stmt('wallets', 'Wallet.transaction_import', "ti.sequence = i['sequence']", 'sequence of dictionary inputs ignored'),
    mut.replace_expr('wallets', 'Wallet.transaction_import_raw', 'self.transaction_create(t_import.outputs, t_import.inputs, network=network, locktime=t_import.locktime, random_output_order=False)', 'self.transaction_create(t_import.outputs, t_import.inputs, network=network, locktime=t_import.locktime)', 'raw import shuffles the spend'),
])
def import_fields(ctx):
    """Hand-off: transaction_create replaces locktime 0 by the block height when anti fee sniping is on, so each import path (object,
    dictionary, raw) must assign rt.locktime and rt.version from the imported transaction AFTER transaction_create; inputs handed over as
    Input objects keep their sequence (sequence = inp.sequence in transaction_create); the dictionary path must carry the sequence too."""
    tc = ctx.repo.func('wallets:Wallet.transaction_create')
    afs = [n for n in ast.walk(tc) if isinstance(n, ast.If) and 'anti_fee_sniping' in norm(n.test) and 'not locktime' in norm(n.test)]
    ctx.saw('transaction_create replaces an unset locktime: %s' % [norm(n.test) for n in afs])
    for q, branch, lt, ver in IMPORTS:
        fn = ctx.repo.func(q)
        body = fn.body
        if branch:
            cur = [n for n in walk_no_nested(fn) if isinstance(n, ast.If) and norm(n.test) == 'isinstance(t, Transaction)']
            if not cur:
                ctx.undecided('%s: type dispatch not found' % q)
            node = cur[0]
            if branch == 'isinstance(t, dict)':
                node = node.orelse[0] if node.orelse and isinstance(node.orelse[0], ast.If) and norm(node.orelse[0].test) == branch else None
                if node is None:
                    ctx.undecided('%s: dictionary branch not found' % q)
            body = node.body
        create = [i for i, s in enumerate(body) if isinstance(s, ast.Assign) and isinstance(s.targets[0], ast.Name) and 'self.transaction_create(' in norm(s.value)]
        if not create:
            ctx.undecided('%s (%s): transaction_create call not found' % (q, branch))
        var = body[create[0]].targets[0].id
        after = {norm(s.targets[0]): s.value for s in body[create[0] + 1:] if isinstance(s, ast.Assign)}
        ctx.saw('%s [%s]: after transaction_create %s.locktime = %s, %s.version = %s' % (q.split('.')[-1], branch or 'raw', var, norm(after[var + '.locktime']) if var + '.locktime' in after else None,
                                                                                    var, norm(after[var + '.version']) if var + '.version' in after else None))
        if var + '.locktime' not in after:
            ctx.violate(q, 'path %s: the locktime of the imported transaction is not restored after transaction_create' % (branch or 'raw'), body[create[0]],
                        'an importing wallet with anti fee sniping replaces nLockTime 0 by the block height: the earlier signatures no longer match')
        else:
            ctx.match(q, 'path %s: locktime restored after transaction_create' % (branch or 'raw'), after[var + '.locktime'], lt, fn, body[create[0]],
                      'the imported transaction has another nLockTime than the one that was signed')
        if var + '.version' not in after:
            ctx.violate(q, 'path %s: the version of the imported transaction is not restored after transaction_create' % (branch or 'raw'), body[create[0]])
        else:
            ctx.match(q, 'path %s: version restored after transaction_create' % (branch or 'raw'), after[var + '.version'], ver, fn, body[create[0]])
    seq = [n for n in ast.walk(tc) if isinstance(n, ast.Assign) and norm(n.targets[0]) == 'sequence' and norm(n.value) == 'inp.sequence']
    ctx.require(bool(seq), 'wallets:Wallet.transaction_create', 'Input objects do not keep their sequence', tc)
    # every import path rebuilds the transaction in the order it was signed: transaction_create shuffles inputs and outputs unless told not to
    shuffles = [n for n in ast.walk(tc) if isinstance(n, ast.If) and norm(n.test) == 'random_output_order' and any('shuffle' in norm(x) for x in n.body)]
    dflt = dict(zip([a.arg for a in tc.args.args][-len(tc.args.defaults):], tc.args.defaults)).get('random_output_order')
    ctx.saw('transaction_create shuffles when random_output_order (default %s): %s' % (norm(dflt) if dflt is not None else None, bool(shuffles)))
    n_calls = 0
    for q in sorted(set(x[0] for x in IMPORTS)):
        fn = ctx.repo.func(q)
        for c in ast.walk(fn):
            if isinstance(c, ast.Call) and norm(c.func) == 'self.transaction_create':
                n_calls += 1
                kw = {k.arg: k.value for k in c.keywords}
                v = kw.get('random_output_order')
                keeps = v is not None and isinstance(v, ast.Constant) and v.value is False
                if shuffles and not keeps:
                    ctx.violate(q, '`%s...` rebuilds the imported transaction with random_output_order=%s: transaction_create shuffles inputs and outputs' % (norm(c)[:70], norm(v) if v is not None else 'the default True'), c,
                                'the importing wallet holds a different transaction from the one the cosigners signed: every earlier signature is invalid and send() refuses it')
    ctx.floor(n_calls, 3, 'transaction_create calls of the import paths')
    # dictionary path: sequence
    fn = ctx.repo.func('wallets:Wallet.transaction_import')
    dct = [n for n in ast.walk(fn) if isinstance(n, ast.If) and norm(n.test) == 'isinstance(t, dict)']
    uses = [n for n in ast.walk(dct[0]) if isinstance(n, ast.Subscript) and isinstance(n.slice, ast.Constant) and n.slice.value == 'sequence'] if dct else []
    ctx.saw("dictionary path reads i['sequence']: %s" % bool(uses))
    if dct and not uses:
        ctx.violate('wallets:Wallet.transaction_import', "the dictionary path never reads the 'sequence' of the inputs: the imported inputs get the sequence transaction_create chooses", dct[0],
                    'creator online (locktime = height, sequence fffffffe), importer offline (sequence ffffffff): the first signature no longer matches and the 2-of-2 spend never verifies')


@PROP.obligation('C10.sig-dedup', canaries=[
    mut.replace_expr('transactions', 'Input.__init__', 'sig.as_der_encoded() not in [x.as_der_encoded() for x in self.signatures]', 'sig.public_key not in [x.public_key for x in self.signatures]', 'signatures de-duplicated by the (optional) key binding'),
])
def sig_dedup(ctx):
    """Input.__init__ collects the signatures it is given and skips duplicates. The value it compares must identify the signature itself -
    it has to read r and s (directly or through a Signature method whose body reads both) - because the other attributes are optional
    metadata: signatures that arrive serialised (dictionary or raw hand-off) carry no public key until verify() binds one, so a
    comparison on public_key keeps only the first of them."""
    q = 'transactions:Input.__init__'
    fn = ctx.repo.func(q)
    loops = [n for n in walk_no_nested(fn) if isinstance(n, ast.For) and norm(n.iter) == 'signatures']
    if len(loops) != 1:
        ctx.undecided('Input.__init__: loop over the given signatures not found')
    var = loops[0].target.id
    guards = [n for n in ast.walk(loops[0]) if isinstance(n, ast.If) and any(isinstance(x, ast.Expr) and norm(x.value).startswith('self.signatures.append(') for x in n.body)]
    appends = [c for c in ast.walk(loops[0]) if isinstance(c, ast.Call) and norm(c.func) == 'self.signatures.append']
    if not appends:
        ctx.undecided('Input.__init__: signatures are not collected in the loop')
    # identity-bearing members of Signature: r, s and every method that reads both
    sig_methods = ctx.repo.methods_of('keys:Signature')
    ident = {'r', 's'}
    for name, f in sig_methods.items():
        reads = set(n.attr for n in ast.walk(f) if isinstance(n, ast.Attribute) and isinstance(n.value, ast.Name) and n.value.id == 'self')
        if {'r', 's'} <= reads and name not in ('__init__', 'verify', 'parse', 'parse_bytes', 'parse_hex', 'create', 'from_str'):
            ident.add(name)
    ctx.saw('members of Signature that identify the signature value: %s' % sorted(ident))
    if not guards:
        ctx.saw('signatures are appended without duplicate test')
        return
    for g in guards:
        cmps = [c for c in ast.walk(g.test) if isinstance(c, ast.Compare) and any(isinstance(o, (ast.NotIn, ast.In)) for o in c.ops)]
        if not cmps:
            ctx.unsure('%s: duplicate test `%s` is not a membership test' % (q, norm(g.test)))
            continue
        for c in cmps:
            left = c.left
            if isinstance(left, ast.Name) and left.id == var:
                ctx.saw('duplicates found by comparing the Signature objects themselves')
                continue
            used = set(n.attr for n in ast.walk(left) if isinstance(n, ast.Attribute) and isinstance(n.value, ast.Name) and n.value.id == var)
            ctx.saw('duplicates found by comparing %s (members used: %s)' % (norm(left), sorted(used)))
            if not (used & ident):
                ctx.violate(q, 'a given signature is dropped as duplicate when `%s`: %s does not identify the signature value (r, s)' % (norm(g.test)[:100], ', '.join('Signature.' + u for u in sorted(used)) or 'the compared value'), g,
                            'signatures handed over as bytes / hex have no public key bound (None): from the second one on they are silently dropped, an m-of-n spend with m >= 3 never completes after a dictionary hand-off')


SERIALISATION_FIELDS = ('inputs', 'outputs', 'locktime', 'version', 'network', 'witness_type', 'flag')


def _drop_witness_type_canary():
    from ..core import Canary

    def mutate(tree):
        for c in ast.walk(tree):
            if isinstance(c, ast.ClassDef) and c.name == 'WalletTransaction':
                for f in c.body:
                    if isinstance(f, ast.FunctionDef) and f.name == 'to_transaction':
                        for call in ast.walk(f):
                            if isinstance(call, ast.Call) and isinstance(call.func, ast.Name) and call.func.id == 'Transaction' and len(call.args) >= 22:
                                del call.args[20:]
                                return True
        return False
    return Canary('saved transaction loses witness type and flag', 'wallets', mutate)


@PROP.obligation('C10.file-handoff', canaries=[
    _drop_witness_type_canary(),
])
def file_handoff(ctx):
    """Hand-off through a file (WalletTransaction.save -> Wallet.transaction_load) goes through WalletTransaction.to_transaction: the plain
    Transaction it builds receives every field that decides the serialisation and the digest - inputs, outputs, locktime, version, network,
    witness_type, flag - each bound to the attribute of the same name. A field left to the constructor default (witness_type 'segwit')
    makes a legacy multisig spend serialise with the BIP144 marker after the round trip through a file."""
    q = 'wallets:WalletTransaction.to_transaction'
    fn = ctx.repo.func(q)
    ti = ctx.repo.func('transactions:Transaction.__init__')
    ps = [a.arg for a in ti.args.args][1:]
    calls = [c for c in ast.walk(fn) if isinstance(c, ast.Call) and norm(c.func) == 'Transaction']
    if len(calls) != 1:
        ctx.undecided('to_transaction: construction of the plain Transaction not found')
    c = calls[0]
    bound = {ps[i]: a for i, a in enumerate(c.args) if i < len(ps)}
    bound.update({k.arg: k.value for k in c.keywords if k.arg})
    ctx.saw('to_transaction binds %d of %d constructor parameters; left to defaults: %s' % (len(bound), len(ps), [p for p in ps if p not in bound]))
    for f in SERIALISATION_FIELDS:
        if f not in bound:
            ctx.violate(q, 'the plain Transaction is built without `%s`: it gets the constructor default' % f, c,
                        'a legacy P2SH multisig spend saved to a file and loaded by the next cosigner is flagged segwit: raw() emits marker, flag and empty witnesses, nodes reject it, while verify() is True')
        else:
            exp = 'self.network.name' if f == 'network' else 'self.' + f
            ctx.match(q, 'constructor argument %s' % f, bound[f], exp, fn, c, 'the exported transaction differs from the one that was signed')


@PROP.obligation('C10.cosigner-order', canaries=[
    mut.replace_expr('wallets', 'Wallet.__init__', 'DbWallet.cosigner_id', 'DbWallet.name', 'cosigner wallets reloaded in name order', nth=0),
])
def cosigner_order(ctx):
    """Wallet.cosigner is indexed by cosigner id (self.cosigner[cosigner_id] in keys_for_path / new_keys / public_master) and, with
    sort_keys off, its order is the key order of every redeem script. Wallet.create appends the cosigner wallets in id order; Wallet.__init__
    reloads them with a query that must therefore be ordered by the numeric column DbWallet.cosigner_id - ordering by the name
    ('w-cosigner-10' < 'w-cosigner-2') permutes the list for wallets with more than ten cosigners."""
    q = 'wallets:Wallet.__init__'
    fn = ctx.repo.func(q)
    asg = [n for n in ast.walk(fn) if isinstance(n, ast.Assign) and 'DbWallet.parent_id == self.wallet_id' in norm(n.value)]
    if len(asg) != 1:
        ctx.undecided('Wallet.__init__: query that reloads the cosigner wallets not found')
    qs = parse_chain(asg[0].value)
    if qs is None:
        ctx.undecided('Wallet.__init__: cosigner reload is not a query chain')
    ctx.saw('cosigner wallets reloaded with order_by %s' % qs.order_by)
    uses = sum(1 for m_ in ('Wallet.keys_for_path', 'Wallet.new_keys', 'Wallet.public_master') for n in ast.walk(ctx.repo.func('wallets:' + m_))
               if isinstance(n, ast.Subscript) and norm(n.value) == 'self.cosigner' and 'cosigner_id' in norm(n.slice))
    ctx.saw('self.cosigner[<cosigner id>] is used %d times' % uses)
    ctx.floor(uses, 2, 'uses of self.cosigner[cosigner_id]')
    if qs.order_by != ['DbWallet.cosigner_id']:
        ctx.violate(q, 'the cosigner wallets are reloaded in the order %s; the list is indexed by cosigner id and decides the key order of unsorted redeem scripts' % (qs.order_by or 'of the database'), asg[0],
                    'a 2-of-12 wallet with sort_keys=False derives other addresses after it is reopened than before, and than its cosigners do')


@PROP.obligation('C10.raw-handoff')
def raw_handoff(ctx):
    """Hand-off as raw hex: the serialisation of a multisig input must carry the signatures made so far. Input.update_scripts writes the
    unlocking script / witness of a multisig input only when len(signatures) >= sigs_required, so a partially signed transaction
    serialises without any signature."""
    q = 'transactions:Input.update_scripts'
    fn = ctx.repo.func(q)
    gate = [n for n in ast.walk(fn) if isinstance(n, ast.If) and 'len(signatures) >= self.sigs_required' in norm(n.test)]
    partial = [n for n in ast.walk(fn) if isinstance(n, ast.If) and ('len(signatures) < self.sigs_required' in norm(n.test))]
    ctx.saw('multisig unlocking script written under: %s' % [norm(g.test) for g in gate])
    if gate and not partial:
        ctx.violate(q, 'the unlocking script / witness of a multisig input is only written with at least sigs_required signatures: partial signatures never reach Transaction.raw()', gate[0],
                    'cosigner A signs, hands over raw_hex(), cosigner B imports with transaction_import_raw: 0 signatures arrive, after B signs the 2-of-2 spend has one signature')


EXPLICIT = [('wallets:Wallet._get_key', 'cosigner_id'), ('wallets:Wallet.new_keys', 'cosigner_id'), ('wallets:Wallet.keys_for_path', 'cosigner_id')]


@PROP.obligation('C10.explicit-cosigner', canaries=[
    mut.replace_expr('wallets', 'Wallet._get_key', 'cosigner_id is None', 'not cosigner_id', 'cosigner branch 0 treated as not given'),
    mut.replace_expr('wallets', 'Wallet.keys_for_path', 'cosigner_id if cosigner_id is not None else self.cosigner_id', 'cosigner_id or self.cosigner_id', 'cosigner branch 0 replaced by the own branch'),
])
def explicit_cosigner(ctx):
    """The BIP45 path of a legacy multisig key contains the cosigner index, so every cosigner wallet must derive branch 0 when branch 0
    is asked for. _get_key, new_keys and keys_for_path are evaluated with cosigner_id=0 on a wallet whose own cosigner id is 2: every
    query filter, path expansion and key record downstream receives 0; with cosigner_id=None they receive the wallet's own id."""
    for q, param in EXPLICIT:
        fn = ctx.repo.func(q)
        for given, exp in ((0, 0), (1, 1), (None, 2)):
            it = Interp(ctx.repo, 'wallets', self_cls='wallets:Wallet')
            st = State()
            st.heap[('attr', SELF, 'cosigner_id')] = 2
            st.heap[('attr', SELF, 'scheme')] = 'bip32'
            st.heap[('attr', SELF, 'multisig')] = True
            seen = []
            it.obs_call = lambda name, base, args, kwargs, st_, node, seen=seen: seen.append((name, kwargs[param], node)) if param in kwargs else None
            try:
                it.run_function(fn, {'self': S(SELF), param: given}, st=st)
            except AnalysisError as e:
                ctx.undecided('%s not evaluable with %s=%s: %s' % (q, param, given, str(e)[:80]))
            if not seen:
                ctx.undecided('%s: no downstream use of %s seen' % (q, param))
            vals = sorted(set(show(term(v))[:30] for _, v, _ in seen))
            ctx.saw('%s(%s=%s), own id 2: downstream %s receive %s' % (q.split('.')[-1], param, given, sorted(set(n for n, _, _ in seen)), vals))
            for name, v, node in seen:
                if v != exp:
                    ctx.violate(q, '%s=%s is passed on to %s as %s (wallet\'s own cosigner id is 2)' % (param, given, name, show(term(v))[:40]), node,
                                'legacy (BIP45) cosigner wallets disagree on the keys, redeem script and address of cosigner branch 0')
                    break


@PROP.obligation('C10.send-gate', canaries=[
    mut.replace_expr('wallets', 'WalletTransaction.send', 'not self.verified and (not self.verify())', 'False', 'broadcast without verification'),
    mut.replace_expr('wallets', 'WalletTransaction.send', 'self.raw_hex()', 'self.rawtx or self.raw_hex()', 'stored serialisation broadcast'),
])
def send_gate(ctx):
    """WalletTransaction.send: the sendrawtransaction call is reachable only through the outcomes `self.verified` true or
    `self.verify()` true of the gate at the top; WalletTransaction.sign ends with self.verify()."""
    q = 'wallets:WalletTransaction.send'
    fn = ctx.repo.func(q)
    g = build_cfg(fn)
    sends = [n for n in g.nodes if n.ast is not None and n.kind in ('stmt', 'return') and any(isinstance(c, ast.Call) and isinstance(c.func, ast.Attribute) and c.func.attr == 'sendrawtransaction' for c in ast.walk(n.ast))]
    if not sends:
        ctx.undecided('WalletTransaction.send: broadcast call not found')
    tests = [n for n in g.nodes if n.kind == 'test' and norm(n.ast) in ('not self.verified', 'not self.verify()', 'self.verified', 'self.verify()')]
    ctx.saw('gate tests: %s' % [norm(n.ast) for n in tests])
    if not tests:
        ctx.violate(q, 'the broadcast is not guarded by the verification state', sends[0].ast, 'a spend with fewer than m signatures is sent to the network')
        return
    blocked = []
    for n in tests:
        neg = norm(n.ast).startswith('not ')
        blocked += g.edges_of(n.id, 'F' if neg else 'T')      # the outcome that means "verified"
    reach = g.reach([g.entry], blocked_edges=blocked)
    ctx.require(sends[0].id not in reach, q, 'the broadcast call is reachable without self.verified / self.verify() being true', sends[0].ast, 'a spend with fewer than m signatures is sent to the network')
    ctx.require(sends[0].id in g.reach([g.entry]), q, 'the broadcast call is unreachable', sends[0].ast)
    # what is broadcast: a fresh serialisation of the current inputs, never a stored copy
    from ..dfa import ReachingDefs as _RD
    rd = _RD(fn, g)
    call = [c for c in ast.walk(sends[0].ast) if isinstance(c, ast.Call) and isinstance(c.func, ast.Attribute) and c.func.attr == 'sendrawtransaction'][0]
    if not call.args:
        ctx.undecided('WalletTransaction.send: sendrawtransaction has no positional argument')
    lv = rd.leaves(call.args[0], sends[0].id)
    fresh = [x for x in lv if x[0] == 'call' and x[1] in ('self.raw_hex', 'self.raw')]
    stored = [x for x in lv if x[0] == 'attr' and x[1].startswith('self.') and x[1] not in ('self.raw_hex', 'self.raw')]
    ctx.saw('broadcast bytes come from %s' % sorted(str(x) for x in lv if x[0] in ('call', 'attr')))
    if stored:
        ctx.violate(q, 'the bytes handed to sendrawtransaction can come from the stored attribute %s instead of a fresh serialisation' % ', '.join(x[1] for x in stored), call,
                    'a serialisation cached before the last cosigner signed is broadcast: the valid m-signature spend is never sent')
    elif not fresh:
        ctx.unsure('%s: origin of the broadcast bytes not recognised: %s' % (q, sorted(map(str, lv))[:4]))
    sg = ctx.repo.func('wallets:WalletTransaction.sign')
    last = [s for s in sg.body if isinstance(s, ast.Expr) and isinstance(s.value, ast.Call) and norm(s.value) == 'self.verify()']
    ctx.require(bool(last), 'wallets:WalletTransaction.sign', 'sign does not re-verify the transaction', sg)


@PROP.obligation('C10.defaults')
def api_defaults(ctx):
    """Defaults of the parameters that decide this property for callers who do not pass them: cosigner keys are sorted and nothing is broadcast by default."""
    from .common_defaults import defaults as run
    n = run(ctx, [('wallets:Wallet.create', 'sort_keys', 'True'), ('wallets:wallet_create_or_open', 'sort_keys', 'True'), ('wallets:Wallet.send', 'broadcast', 'False'), ('wallets:Wallet.send_to', 'broadcast', 'False'), ('wallets:Wallet.sweep', 'broadcast', 'False'), ('transactions:Transaction.sign', 'replace_signatures', 'False'), ('wallets:WalletTransaction.sign', 'replace_signatures', 'False')], 'cosigner wallets created with default arguments disagree on the key order / partially signed spends are pushed')
    ctx.floor(n, 6, 'parameter defaults')


ROLE_KEYS = {'prev_txid': 'prev_txid', 'output_n': 'output_n', 'value': 'value', 'signatures': 'signatures', 'unlocking_script': 'script', 'address': 'address'}


@PROP.obligation('C10.dict-input-tuple', canaries=[
    mut.replace_expr('wallets', 'Wallet.transaction_import', "i['output_n']", "i['index_n']", 'imported outpoint uses the input position instead of the output number'),
])
def dict_input_tuple(ctx):
    """Dictionary hand-off: Wallet.transaction_import packs every input into a tuple that Wallet.transaction_create unpacks by POSITION
    (inp[0] previous txid, inp[1] output number, inp[2] key id, inp[3] value, inp[4] signatures, inp[5] unlocking script, inp[6] address).
    The positions are read from transaction_create and each element of the tuple built by the import must come from the dictionary key
    of that role - in particular the outpoint index from 'output_n', not from the neighbouring 'index_n'."""
    from ..dfa import ReachingDefs
    tc = ctx.repo.func('wallets:Wallet.transaction_create')
    roles = {}
    for a_ in ast.walk(tc):
        if isinstance(a_, ast.Assign) and isinstance(a_.targets[0], ast.Name):
            for sub in ast.walk(a_.value):
                if isinstance(sub, ast.Subscript) and norm(sub.value) == 'inp' and isinstance(sub.slice, ast.Constant) and isinstance(sub.slice.value, int):
                    roles[sub.slice.value] = a_.targets[0].id
    ctx.saw('transaction_create reads the input tuple as %s' % dict(sorted(roles.items())))
    if len(roles) < 6:
        ctx.undecided('transaction_create: positional reading of input tuples not found')
    q = 'wallets:Wallet.transaction_import'
    fn = ctx.repo.func(q)
    rd = ReachingDefs(fn)
    tups = [c.args[0] for c in ast.walk(fn) if isinstance(c, ast.Call) and norm(c.func) == 'input_arr.append' and c.args and isinstance(c.args[0], ast.Tuple)]
    if len(tups) != 1:
        ctx.undecided('transaction_import: construction of the input tuple not found')
    nid = rd.node_of_ast(tups[0])
    for k, el in enumerate(tups[0].elts):
        role = roles.get(k)
        if role is None:
            continue
        if role == 'key_id':
            continue
        keys = sorted(set(x.slice.value for x in ast.walk(el) if isinstance(x, ast.Subscript) and norm(x.value) == 'i' and isinstance(x.slice, ast.Constant)))
        if not keys and isinstance(el, ast.Name):
            # a local: the dictionary keys its definitions read
            for d in rd.reaching(nid, el.id):
                if d.value is not None:
                    keys += [x.slice.value for x in ast.walk(d.value) if isinstance(x, ast.Subscript) and norm(x.value) == 'i' and isinstance(x.slice, ast.Constant)]
            keys = sorted(set(keys))
        want = ROLE_KEYS.get(role)
        ctx.saw('position %d (%s) <- dictionary key %s' % (k, role, keys))
        if want is None:
            continue
        if want not in keys:
            ctx.violate(q, 'position %d of the input tuple, which transaction_create reads as %s, is filled from dictionary key %s instead of %r' % (k, role, keys, want), el,
                        'the importing cosigner rebuilds and signs a spend of prev_txid:<input position>: the earlier signature no longer matches')


@PROP.obligation('C10.create-account', canaries=[
    mut.Canary('the account a wallet was created for is not recorded', 'wallets', lambda tree: _drop_default_account(tree)),
])
def create_account(ctx):
    """Cosigner wallets created with account_id=k hold the other cosigners' ACCOUNT-level public keys of account k. The wallet row that
    Wallet._create writes records that account as the wallet's default (DbWallet(default_account_id=account_id)): the parent wallet of a
    multisig set has no main key to fall back on, and with default account 0 the cosigner that holds its private master key derives its
    own key from account 0' while the others are fixed at k' - every cosigner wallet then shows another address for the same path."""
    q = 'wallets:Wallet._create'
    fn = ctx.repo.func(q)
    if 'account_id' not in [a.arg for a in fn.args.args]:
        ctx.undecided('Wallet._create has no account_id parameter')
    rows = [c for c in ast.walk(fn) if isinstance(c, ast.Call) and norm(c.func) == 'DbWallet']
    if len(rows) != 1:
        ctx.undecided('Wallet._create: %d DbWallet(...) rows, expected 1' % len(rows))
    kw = {k.arg: k.value for k in rows[0].keywords}
    v = kw.get('default_account_id')
    ctx.saw('DbWallet(... default_account_id=%s)' % (norm(v) if v is not None else 'absent'))
    later = [a for a in ast.walk(fn) if isinstance(a, ast.Assign) and any('default_account_id' in norm(t) for t in a.targets) and any(isinstance(x, ast.Name) and x.id == 'account_id' for x in ast.walk(a.value))]
    ok = (v is not None and any(isinstance(x, ast.Name) and x.id == 'account_id' for x in ast.walk(v))) or bool(later)
    ctx.require(ok, q, 'the wallet row is written without the account the wallet is created for (default_account_id=%s)' % (norm(v) if v is not None else 'absent'), rows[0],
                'three cosigner wallets created with account_id=2 give three different addresses for key_for_path([0, 0]): the holder of the private master key derives its own key from account 0')


def _drop_default_account(tree):
    for n in ast.walk(tree):
        if isinstance(n, ast.FunctionDef) and n.name == '_create':
            for c in ast.walk(n):
                if isinstance(c, ast.Call) and isinstance(c.func, ast.Name) and c.func.id == 'DbWallet':
                    before = len(c.keywords)
                    c.keywords = [k for k in c.keywords if k.arg != 'default_account_id']
                    return len(c.keywords) < before
    return False


@PROP.obligation('C10.sign-every-key-every-input', canaries=[
    mut.Canary('a key that already signed ends the loop over the supplied keys', 'transactions', lambda tree: _continue_to_break(tree, 'already signed')),
    mut.Canary('an input that received no new signature ends the loop over the inputs', 'transactions', lambda tree: _continue_to_break(tree, 'not n_signs')),
])
def sign_every_key_every_input(ctx):
    """"... exactly when at least m distinct cosigners have signed, in any order": Transaction.sign(keys) offers every supplied key to every
    input. Its loop over the inputs (`for tid in tids`) and its loop over the keys of one input contain no `break` of their own - a key
    that already signed, or an input that got nothing new, is skipped with `continue`. With `break`, sign(k0) followed by
    sign([k0, k1]) leaves every input with one signature while sign([k1, k0]) completes it."""
    q = 'transactions:Transaction.sign'
    fn = ctx.repo.func(q)
    outer = [l for l in walk_no_nested(fn) if isinstance(l, ast.For) and norm(l.iter) == 'tids']
    if len(outer) != 1:
        ctx.undecided('Transaction.sign: loop over the inputs (`for tid in tids`) not found')
    inner = [l for l in ast.walk(outer[0]) if isinstance(l, ast.For) and l is not outer[0] and norm(l.iter) == 'tid_keys']
    if len(inner) != 1:
        ctx.undecided('Transaction.sign: loop over the keys of one input (`for key in tid_keys`) not found')

    def own_breaks(loop):
        out = []

        def visit(stmts):
            for s_ in stmts:
                if isinstance(s_, ast.Break):
                    out.append(s_)
                elif isinstance(s_, (ast.For, ast.While)):
                    visit(s_.orelse)            # a nested loop owns its breaks
                elif isinstance(s_, (ast.If, ast.With, ast.Try)):
                    for field in ('body', 'orelse', 'finalbody'):
                        visit(getattr(s_, field, []) or [])
                    for h in getattr(s_, 'handlers', []) or []:
                        visit(h.body)
        visit(loop.body)
        return out
    n = 0
    for loop, what, why in ((outer[0], 'the inputs', 'after sign(k, index_n=0) a later sign(k) never reaches the other inputs'),
                            (inner[0], 'the supplied keys', 'sign(k0) followed by sign([k0, k1]) never tries k1: the spend stays one signature short although two cosigners signed')):
        n += 1
        br = own_breaks(loop)
        ctx.saw('loop over %s: %d break statement(s) of its own' % (what, len(br)))
        for b in br:
            ctx.violate(q, 'the loop over %s is left with `break` (line %d): the remaining %s are not signed' % (what, b.lineno, what), b, why)
    ctx.floor(n, 2, 'loops')


def _continue_to_break(tree, marker):
    for cls in tree.body:
        if isinstance(cls, ast.ClassDef) and cls.name == 'Transaction':
            for f in cls.body:
                if isinstance(f, ast.FunctionDef) and f.name == 'sign':
                    for i_ in ast.walk(f):
                        if isinstance(i_, ast.If) and marker in norm(i_) and i_.body and isinstance(i_.body[-1], ast.Continue):
                            i_.body[-1] = ast.Break()
                            return True
    return False


@PROP.obligation('C10.export-account', canaries=[
    mut.drop_kwarg('wallets', 'Wallet.wif', 'wif', 'account_id', 'the cosigner wallets are asked for their keys without the account'),
    mut.Canary('Wallet.wif exports account 0 by default', 'wallets', lambda tree: _wif_default_zero(tree)),
])
def export_account(ctx):
    """Wallet.wif() and Wallet.public_master() are the two exports cosigner wallets are built from; they must name the same keys.
    public_master(account_id=None) means the wallet's default account - so does wif(): its account_id parameter defaults to None (not to
    account 0), and in a multisig wallet both hand the account on to every cosigner wallet they ask (cs.wif(..., account_id=account_id) /
    cs.public_master(account_id, ...)). An export of account 0 from a wallet that works on account 3 gives cosigner wallets that derive
    other redeem scripts for the same path."""
    q = 'wallets:Wallet.wif'
    fn = ctx.repo.func(q)
    a = fn.args
    names = [x.arg for x in a.args]
    dflt = dict(zip(names[len(names) - len(a.defaults):], a.defaults))
    d = dflt.get('account_id')
    ctx.saw('Wallet.wif(account_id=%s)' % (norm(d) if d is not None else 'required'))
    ctx.require(d is None or (isinstance(d, ast.Constant) and d.value is None), q, 'the account_id parameter of Wallet.wif defaults to %s: a wallet that works on another account exports the keys of that one' % (norm(d) if d is not None else ''), fn,
                'Wallet.create(..., account_id=3).wif() lists the account-0 key of the privately held cosigner')
    n = 0
    for meth in ('wif', 'public_master'):
        f = ctx.repo.func('wallets:Wallet.' + meth)
        for loop in ast.walk(f):
            if isinstance(loop, ast.For) and norm(loop.iter) == 'self.cosigner':
                for c in ast.walk(loop):
                    if isinstance(c, ast.Call) and isinstance(c.func, ast.Attribute) and c.func.attr in ('wif', 'public_master') and norm(c.func.value) == loop.target.id:
                        n += 1
                        acc = next((k.value for k in c.keywords if k.arg == 'account_id'), None)
                        if acc is None and c.func.attr == 'public_master' and c.args:
                            acc = c.args[0]
                        ctx.saw('Wallet.%s asks each cosigner wallet: %s' % (meth, norm(c)[:70]))
                        ctx.require(acc is not None and norm(acc) == 'account_id', 'wallets:Wallet.' + meth, '`%s` does not hand the requested account on to the cosigner wallet' % norm(c)[:60], c,
                                    'the exported list mixes the keys of account 0 with the keys of the requested account')
    ctx.floor(n, 2, 'exports that ask the cosigner wallets')


def _wif_default_zero(tree):
    for cls in tree.body:
        if isinstance(cls, ast.ClassDef) and cls.name == 'Wallet':
            for f in cls.body:
                if isinstance(f, ast.FunctionDef) and f.name == 'wif':
                    a = f.args
                    names = [x.arg for x in a.args]
                    i = names.index('account_id') - (len(names) - len(a.defaults))
                    a.defaults[i] = ast.Constant(0)
                    return True
    return False


from . import c03 as _c03
PROP.obligation('C10.public-master-arguments')(_c03.public_master_account)
