"""C09 Wallet key paths — structure table, path expansion, next index, account defaults, persisted fields, sibling agreement."""
import ast

from ..core import Property, AnalysisError, unparse, norm, walk_no_nested, fold, NotConst
from ..sym import Interp, S, term, show, subterms, State
from ..query import parse_chain, queries_in
from ..dfa import ReachingDefs
from .. import mut

PROP = Property(
    'C09', 'Wallet keys: standard path table, path expansion, next index = highest index + 1 within the chain, explicit account honoured, stored fields come from the derived key',
    'Static: (1) WALLET_KEY_STRUCTURES is compared with BIP44 / 45 / 48 / 49 / 84 for the whole table (purpose, witness type, script type, '
    'encoding, path template, hardened levels) and (witness type, multisig) selects exactly one row; (2) keys.path_expand is evaluated on every '
    'template of the table with sentinel values: every variable lands at its own level, hardened exactly where the template says; (3) the query '
    'Wallet.new_keys uses for the next index filters on wallet, purpose, network, account, witness type, change, cosigner and depth, orders by '
    'address_index descending and adds one; the bulk branch of keys_for_path continues with a contiguous range; (4) _get_account_defaults keeps an '
    'explicitly given account (0 included) and only replaces None; (5) the two WalletKey.from_key calls of keys_for_path agree on every shared '
    'argument; (6) WalletKey.from_key stores address / wif / index / depth / path computed from the derived key and the arguments in the columns '
    'of the same name, DbKey declares (wallet_id, address) unique; (7) new_account takes highest account + 1 and refuses an existing account. '
    'That BIP32 derivation itself gives the right key material is C03; equality of restored wallets over all seeds is NOT decided.',
    ['BIP32 child derivation (C03)', 'SQL semantics of filter_by / order_by / first'])

SELF = ('var', 'self')
A = lambda b, n: ('attr', b, n)

BIP44 = ["m", "purpose'", "coin_type'", "account'", "change", "address_index"]
BIP48 = ["m", "purpose'", "coin_type'", "account'", "script_type'", "change", "address_index"]
BIP45 = ["m", "purpose'", "cosigner_index", "change", "address_index"]


@PROP.obligation('C09.structures', canaries=[
    mut.replace_expr('config.config', None, "['m', \"purpose'\", \"coin_type'\", \"account'\", 'change', 'address_index']", "['m', \"purpose'\", \"coin_type'\", 'account', 'change', 'address_index']", 'account level of the BIP44 template not hardened', nth=0),
])
def structures(ctx):
    """WALLET_KEY_STRUCTURES: purpose 44 = legacy single p2pkh base58 (BIP44 template), 49 = p2sh-segwit single (base58), 84 = segwit single
    (bech32), 45 = legacy multisig p2sh (BIP45 template), 48 = p2sh-segwit / segwit multisig (BIP48 template with script_type'); no two rows
    with a purpose share (witness_type, multisig)."""
    ks = ctx.repo.consts('config.config').get('WALLET_KEY_STRUCTURES')
    if not isinstance(ks, list) or not all(isinstance(k, dict) for k in ks):
        ctx.undecided('WALLET_KEY_STRUCTURES is not a literal table')
    ctx.floor(len(ks), 6, 'wallet key structures')
    want = {
        (44, 'legacy', False): ('p2pkh', 'base58', BIP44),
        (45, 'legacy', True): ('p2sh', 'base58', BIP45),
        (48, 'p2sh-segwit', True): ('p2sh-p2wsh', 'base58', BIP48),
        (48, 'segwit', True): ('p2wsh', 'bech32', BIP48),
        (49, 'p2sh-segwit', False): ('p2sh-p2wpkh', 'base58', BIP44),
        (84, 'segwit', False): ('p2wpkh', 'bech32', BIP44),
    }
    got = {}
    for k in ks:
        if k.get('purpose') is None:
            continue
        key = (k['purpose'], k['witness_type'], k['multisig'])
        got[key] = (k['script_type'], k['encoding'], list(k['key_path']))
    for key, exp in want.items():
        ctx.saw('%s -> %s' % (key, got.get(key)))
        ctx.require(got.get(key) == exp, 'config.config:WALLET_KEY_STRUCTURES', 'structure %s is %s, the standard is %s' % (key, got.get(key), exp), None,
                    'wallet keys lie at non-standard paths and other wallets do not find the funds after a restore')
    combos = [(w, m) for (_, w, m) in got]
    ctx.require(len(combos) == len(set(combos)), 'config.config:WALLET_KEY_STRUCTURES', '(witness_type, multisig) does not select a unique row: %s' % sorted(combos), None)


SLIP44 = {'bitcoin': 0, 'testnet': 1, 'testnet4': 1, 'signet': 1, 'regtest': 1, 'litecoin': 2, 'litecoin_legacy': 2, 'litecoin_testnet': 1, 'dogecoin': 3, 'dogecoin_testnet': 1}


@PROP.obligation('C09.cointypes')
def cointypes(ctx):
    """networks.json: the BIP44 coin_type of every public network is its SLIP-0044 number (bitcoin 0, all test networks 1, litecoin 2,
    dogecoin 3): it is the coin_type' level of every wallet path."""
    import json
    import os
    path = os.path.join(ctx.repo.root, 'bitcoinlib', 'data', 'networks.json')
    try:
        data = json.load(open(path))
    except Exception as e:
        ctx.undecided('networks.json unreadable: %r' % e)
    n = 0
    for net, want in SLIP44.items():
        if net not in data:
            ctx.undecided('network %s vanished from networks.json' % net)
        n += 1
        got = data[net].get('bip44_cointype')
        ctx.require(got == want, 'bitcoinlib/data/networks.json', 'network %s: bip44_cointype is %s, SLIP-0044 says %s' % (net, got, want), None,
                    'wallet keys of that network lie at another coin_type level than in every other wallet')
    ctx.saw('%d networks compared with SLIP-0044' % n)


@PROP.obligation('C09.path-expand', canaries=[
    mut.replace_expr('keys', 'path_expand', "path_template[i][-1:] == \"'\"", 'False', 'template hardening ignored'),
    mut.replace_expr('keys', 'path_expand', 'account_id', 'change', 'account level filled with the change flag'),
    mut.replace_expr('keys', 'path_expand', 'deepcopy(path)', 'path', 'completion loop pops from the caller\'s list', nth=0),
])
def path_expand(ctx):
    """keys.path_expand([], template, ...) evaluated for every path template of the table with sentinel values (purpose 901, coin type 902,
    account 903, script type by witness type, cosigner 905, change 906, index 907): the result has the template's length, each level holds
    the sentinel of its variable and carries the hardened marker exactly where the template has one. A partial path replaces the last levels."""
    ks = ctx.repo.consts('config.config').get('WALLET_KEY_STRUCTURES')
    if not isinstance(ks, list):
        ctx.undecided('WALLET_KEY_STRUCTURES is not a literal table')
    fn = ctx.repo.func('keys:path_expand')
    templates = []
    for k in ks:
        t = list(k['key_path'])
        if t not in templates and len(t) > 1:
            templates.append(t)
    ctx.floor(len(templates), 3, 'path templates')
    sent = {'purpose': 901, 'coin_type': 902, 'account': 903, 'script_type': 2, 'cosigner_index': 905, 'change': 906, 'address_index': 907}

    def run(path, tpl, wt='segwit'):
        hooks = {'Network': lambda interp, args, kwargs, st, node: S(('net', term(args[0]))),
                 'deepcopy': lambda interp, args, kwargs, st, node: list(args[0]) if isinstance(args[0], list) else args[0]}
        it = Interp(ctx.repo, 'keys', hooks=hooks, attr_hook=lambda interp, base, name, st: 902 if name == 'bip44_cointype' else NotImplemented)
        exits = it.run_function(fn, {'path': path, 'path_template': list(tpl), 'level_offset': None, 'account_id': 903, 'cosigner_id': 905, 'purpose': 901,
                                     'address_index': 907, 'change': 906, 'witness_type': wt, 'multisig': False, 'network': 'bitcoin'})
        rets = [e for e in exits if e.kind == 'return']
        if len(rets) != 1 or not isinstance(rets[0].value, list) or not all(isinstance(x, str) for x in rets[0].value):
            ctx.undecided('path_expand not decidable on template %s: %s' % (tpl, [(e.kind, show(term(e.value))[:80]) for e in exits][:3]))
        return rets[0].value

    def run(path, tpl, wt='segwit', _run=run):
        # the caller's list is an input, not a work area: Wallet.keys_for_path hands the same list to every cosigner wallet
        given = list(path)
        got = _run(path, tpl, wt)
        ctx.require(path == given, 'keys:path_expand', 'the path list handed in (%s) is %s after the call: path_expand consumes its argument' % ('/'.join(given) or 'empty', '/'.join(path) or 'empty'), fn,
                    'a caller that uses the list again (keys_for_path passes it on to each cosigner wallet) gets the key at change 0 / index 0 instead of the path it asked for')
        path[:] = given
        return got
    for tpl in templates:
        got = run([], tpl)
        exp = ['m'] + ['%d%s' % (sent[v.rstrip("'")], "'" if v.endswith("'") else '') for v in tpl[1:]]
        ctx.saw('%s -> %s' % ('/'.join(tpl), '/'.join(got)))
        ctx.require(got == exp, 'keys:path_expand', 'template %s expands to %s, expected %s' % ('/'.join(tpl), '/'.join(got), '/'.join(exp)), fn,
                    'keys are derived at another path than the documented one')
        got = run(['1', '55'], tpl)
        exp2 = exp[:-2] + ['1', '55']
        ctx.require(got == exp2, 'keys:path_expand', 'partial path 1/55 on template %s expands to %s, expected %s' % ('/'.join(tpl), '/'.join(got), '/'.join(exp2)), fn)
        # a partial path that reaches into the hardened levels takes the hardening of the template
        k = len(tpl) - 1
        part = [str(800 + i) for i in range(k)]
        got = run(part, tpl)
        exp3 = ['m'] + [part[i] + ("'" if tpl[i + 1].endswith("'") else '') for i in range(k)]
        ctx.require(got == exp3, 'keys:path_expand', 'path %s on template %s expands to %s, expected %s' % ('/'.join(part), '/'.join(tpl), '/'.join(got), '/'.join(exp3)), fn,
                    'numbers given for hardened levels are derived as normal children: other keys than the documented path')
    got = run([], BIP48, wt='p2sh-segwit')
    ctx.saw("BIP48 with witness type p2sh-segwit -> %s" % '/'.join(got))
    ctx.require(got[4] == "1'", 'keys:path_expand', "script_type level of a p2sh-segwit multisig wallet is %s, BIP48 says 1'" % got[4], fn)


CHAIN_FIELDS = {'wallet_id': 'self.wallet_id', 'purpose': 'purpose', 'network_name': 'network', 'account_id': 'account_id', 'witness_type': 'witness_type',
                'change': 'change', 'cosigner_id': 'cosigner_id', 'depth': 'self.key_depth'}


def _drop_kw(tree, fname, kw):
    for f in ast.walk(tree):
        if isinstance(f, ast.FunctionDef) and f.name == fname:
            for c in ast.walk(f):
                if isinstance(c, ast.Call) and isinstance(c.func, ast.Attribute) and c.func.attr == 'filter_by' and any(k.arg == kw for k in c.keywords):
                    c.keywords = [k for k in c.keywords if k.arg != kw]
                    return True
    return False


@PROP.obligation('C09.next-index', canaries=[
    mut.replace_expr('wallets', 'Wallet.new_keys', 'DbKey.address_index.desc()', 'DbKey.id.desc()', 'next index taken from the most recently created key'),
    mut.replace_expr('wallets', 'Wallet.new_keys', 'prevkey.address_index + 1', 'prevkey.address_index', 'last index issued again'),
    mut.replace_expr('wallets', 'Wallet.keys_for_path', "int(fullpath[-1].strip(\"'\")) + len(new_keys)", "int(fullpath[-1].strip(\"'\")) + len(new_keys) + 1", 'bulk creation skips an index'),
    mut.replace_expr('wallets', 'Wallet.last_address_index', 'witness_type=self.witness_type, change=change', 'witness_type=self.witness_type', 'highest index taken over both chains') if False else
    mut.Canary('highest index taken over both chains', 'wallets', lambda tree: _drop_kw(tree, 'last_address_index', 'change')),
])
def next_index(ctx):
    """Wallet.new_keys: the previous key of the chain is looked up with filter_by(wallet_id, purpose, network_name, account_id, witness_type,
    change, cosigner_id, depth = key depth), order_by(DbKey.address_index.desc()).first(); the new index is its address_index + 1 and is
    what keys_for_path receives. The bulk branch of keys_for_path creates range(first + len(already created), first + number_of_keys)."""
    q = 'wallets:Wallet.new_keys'
    fn = ctx.repo.func(q)
    asg = [n for n in walk_no_nested(fn) if isinstance(n, ast.Assign) and unparse(n.targets[0]) == 'prevkey']
    if len(asg) != 1:
        ctx.undecided('Wallet.new_keys: previous-key query not found')
    qs = parse_chain(asg[0].value)
    if qs is None:
        ctx.undecided('Wallet.new_keys: previous-key lookup is not a query chain')
    ctx.saw('previous key: models %s filter_by %s order_by %s terminal %s' % (qs.models, qs.filter_by, qs.order_by, qs.terminal))
    ctx.require(qs.models == ['DbKey'] and not qs.filters, q, 'previous-key query runs on %s with extra filters %s' % (qs.models, qs.filters), asg[0])
    for col, src in CHAIN_FIELDS.items():
        if col not in qs.filter_by:
            ctx.violate(q, 'previous-key query does not filter on %s' % col, asg[0], 'the next index is taken from another chain: gaps or repeated addresses')
        else:
            ctx.match(q, 'filter %s of the previous-key query' % col, qs.filter_by[col], src, fn, asg[0], 'the next index is taken from another chain: gaps or repeated addresses')
    extra = set(qs.filter_by) - set(CHAIN_FIELDS)
    ctx.require(not extra, q, 'previous-key query has extra filters %s' % sorted(extra), asg[0])
    if qs.terminal != 'first' or len(qs.order_by) != 1:
        ctx.unsure('%s: previous key selected by order %s / %s' % (q, qs.order_by, qs.terminal))
    else:
        ctx.match(q, 'order of the previous-key query', qs.order_by[0], 'DbKey.address_index.desc()', fn, asg[0], 'after keys were created out of order the next index repeats an existing one')
    inc = [n for n in ast.walk(fn) if isinstance(n, ast.Assign) and unparse(n.targets[0]) == 'address_index' and 'prevkey' in unparse(n.value)]
    if len(inc) != 1:
        ctx.unsure('%s: next index is not derived from the previous key in one place' % q)
    elif norm(inc[0].value) == 'prevkey.address_index':
        ctx.violate(q, 'next index is prevkey.address_index: the last index is issued again', inc[0])
    elif norm(inc[0].value) not in ('prevkey.address_index + 1', '1 + prevkey.address_index'):
        ctx.unsure('%s: next index is %s' % (q, norm(inc[0].value)))
    calls = [c for c in ast.walk(fn) if isinstance(c, ast.Call) and unparse(c.func) == 'self.keys_for_path']
    if not calls:
        ctx.undecided('Wallet.new_keys: call of keys_for_path not found')
    kwn = {k.arg: k.value for c in calls for k in c.keywords}
    for name in ('address_index', 'account_id', 'witness_type', 'network', 'cosigner_id', 'change', 'number_of_keys'):
        ctx.match(q, 'argument %s of keys_for_path' % name, kwn.get(name), name, None, calls[0])
    # sibling: last_address_index looks at the same chain (its answer bounds address_index()): the same set of chain columns, none dropped
    q3 = 'wallets:Wallet.last_address_index'
    f3 = ctx.repo.func(q3)
    asg3 = [n for n in walk_no_nested(f3) if isinstance(n, ast.Assign) and unparse(n.targets[0]) == 'prevkey']
    if len(asg3) != 1:
        ctx.undecided('Wallet.last_address_index: previous-key query not found')
    qs3 = parse_chain(asg3[0].value)
    if qs3 is None:
        ctx.undecided('Wallet.last_address_index: previous-key lookup is not a query chain')
    ctx.saw('last_address_index: filter_by %s order_by %s' % (sorted(qs3.filter_by), qs3.order_by))
    for col in CHAIN_FIELDS:
        if col not in qs3.filter_by:
            ctx.violate(q3, 'the highest-index query does not filter on %s (Wallet.new_keys does)' % col, asg3[0],
                        'the bound that address_index() checks is the highest index of ANOTHER chain: a key beyond the end of the shorter chain is created out of order, leaving never-issued indexes')
    for col in ('change', 'account_id', 'cosigner_id'):
        if col in qs3.filter_by:
            ctx.match(q3, 'filter %s of the highest-index query' % col, qs3.filter_by[col], col, f3, asg3[0])
    if qs3.order_by != ['DbKey.address_index.desc()'] or qs3.terminal != 'first':
        ctx.unsure('%s: highest index selected by %s / %s' % (q3, qs3.order_by, qs3.terminal))
    # bulk branch
    q2 = 'wallets:Wallet.keys_for_path'
    f2 = ctx.repo.func(q2)
    rng = [c for c in ast.walk(f2) if isinstance(c, ast.Call) and unparse(c.func) == 'range' and 'number_of_keys' in unparse(c)]
    if len(rng) != 1 or len(rng[0].args) != 2:
        ctx.undecided('Wallet.keys_for_path: index range of the bulk branch not found')
    lo, hi = norm(rng[0].args[0]), norm(rng[0].args[1])
    ctx.saw('bulk branch creates range(%s, %s)' % (lo, hi))
    base = "int(fullpath[-1].strip(\"'\"))"
    if lo == base + ' + len(new_keys)' and hi == base + ' + number_of_keys':
        pass
    elif lo.startswith(base + ' + len(new_keys)') or hi.startswith(base + ' + number_of_keys') or lo == base or lo.startswith(base + ' + '):
        ctx.violate(q2, 'bulk branch creates indexes range(%s, %s)' % (lo, hi), rng[0], 'bulk key creation leaves a gap or repeats an index')
    else:
        ctx.unsure('%s: bulk index range(%s, %s) not recognised' % (q2, lo, hi))


@PROP.obligation('C09.account-default', canaries=[
    mut.replace_expr('wallets', 'Wallet._get_account_defaults', 'account_id is None and network == self.network.name', 'not account_id and network == self.network.name', 'account 0 treated as not given'),
])
def account_default(ctx):
    """Wallet._get_account_defaults evaluated with the wallet's default account set to 5: an explicit account 0 (or 3) is returned
    unchanged and is the account the key query filters on; only None on the wallet's own network becomes the default account."""
    q = 'wallets:Wallet._get_account_defaults'
    fn = ctx.repo.func(q)
    for acc, net, exp in ((0, None, 0), (3, None, 3), (None, None, 5), (0, 'bitcoin', 0), (0, 'litecoin', 0)):
        it = Interp(ctx.repo, 'wallets', self_cls='wallets:Wallet')
        st = State()
        st.heap[A(SELF, 'default_account_id')] = 5
        st.heap[A(SELF, '_default_account_id')] = 5
        st.heap[A(A(SELF, 'network'), 'name')] = 'bitcoin'
        seen = []
        it.obs_call = lambda name, base, args, kwargs, st_, node: seen.append((name, dict(kwargs))) if name == 'filter_by' else None
        exits = it.run_function(fn, {'self': S(SELF), 'network': net, 'account_id': acc, 'key_id': None}, st=st)
        rets = [e for e in exits if e.kind == 'return']
        if len(rets) != 1 or not isinstance(rets[0].value, (tuple, list)) or len(rets[0].value) != 3:
            ctx.undecided('_get_account_defaults not decidable for account %s' % acc)
        got = rets[0].value[1]
        filt = [kw.get('account_id') for n, kw in seen if 'account_id' in kw]
        ctx.saw('account_id=%s network=%s (default account 5) -> %s, key query filters account %s' % (acc, net, show(term(got))[:40], [show(term(f))[:20] for f in filt]))
        ctx.require(got == exp, q, 'account_id=%s is replaced by %s (wallet default 5)' % (acc, show(term(got))[:60]), fn,
                    'new_key(account_id=0) of a wallet whose default account is 5 hands out keys of account 5')
        if exp is not None and acc is not None:
            ctx.require(filt == [exp], q, 'the account key is looked up for account %s instead of %s' % (filt, exp), fn)


PER_KEY = {'key', 'name', 'path', 'parent_id', 'new_key_id'}


@PROP.obligation('C09.from-key-siblings', canaries=[
    mut.replace_expr('wallets', 'Wallet.keys_for_path', 'encoding', 'self.encoding', 'bulk branch stores the wallet encoding', nth=3),
])
def from_key_siblings(ctx):
    """Wallet.keys_for_path creates keys in two places (single key, bulk): both WalletKey.from_key calls pass the same expression for every
    shared argument (wallet_id, account_id, change, purpose, encoding, witness_type, cosigner_id, network, session)."""
    q = 'wallets:Wallet.keys_for_path'
    fn = ctx.repo.func(q)
    calls = [c for c in ast.walk(fn) if isinstance(c, ast.Call) and unparse(c.func) == 'WalletKey.from_key']
    ctx.floor(len(calls), 2, 'WalletKey.from_key calls in keys_for_path')
    kws = [{k.arg: norm(k.value) for k in c.keywords} for c in calls]
    ref = kws[0]
    must = {'wallet_id', 'account_id', 'change', 'purpose', 'encoding', 'witness_type', 'cosigner_id', 'network', 'session'}
    ctx.saw('arguments of call 1: %s' % {k: v for k, v in sorted(ref.items()) if k not in PER_KEY})
    ctx.require(must <= set(ref), q, 'WalletKey.from_key is called without %s' % sorted(must - set(ref)), calls[0])
    for i, kw in enumerate(kws[1:], 2):
        for name in sorted(must):
            ctx.require(kw.get(name) == ref.get(name), q, 'WalletKey.from_key call %d passes %s=%s, the first call passes %s' % (i, name, kw.get(name), ref.get(name)), calls[i - 1],
                        'keys created in bulk are stored with another %s than single keys of the same path' % name)
    first = {k.arg: k.value for k in calls[0].keywords}
    for name in ('encoding', 'witness_type', 'purpose'):
        ctx.match(q, 'argument %s of WalletKey.from_key (the value computed for the requested witness type)' % name, first.get(name), name, None, calls[0],
                  'keys of another witness type are stored with the wallet default')


@PROP.obligation('C09.derived-witness-type', canaries=[
    mut.drop_stmt('wallets', 'Wallet.keys_for_path', 'parent_key.witness_type = witness_type', 'bulk branch derives from a key with the stored witness type'),
    mut.drop_stmt('wallets', 'Wallet.keys_for_path', 'ck.witness_type = witness_type', 'single branch derives from a key with the stored witness type'),
])
def derived_witness_type(ctx):
    """WalletKey.from_key takes the witness type from the HDKey it is given (`witness_type = k.witness_type`), not from its argument. So in
    Wallet.keys_for_path every key passed to from_key must descend (subkey_for_path) from a root key `X = topkey.key()` whose witness_type
    and encoding were set to the requested values - a root rebuilt from a stored extended key has the FIRST witness type its prefix is
    listed for (litecoin Mtpv: p2sh-segwit before segwit)."""
    fk = ctx.repo.func('wallets:WalletKey.from_key')
    override = [n for n in ast.walk(fk) if isinstance(n, ast.Assign) and norm(n.targets[0]) == 'witness_type' and norm(n.value) == 'k.witness_type']
    ctx.saw('WalletKey.from_key overrides its witness_type argument with the key\'s: %s' % bool(override))
    if not override:
        return
    q = 'wallets:Wallet.keys_for_path'
    fn = ctx.repo.func(q)
    assigns = {}
    for n in ast.walk(fn):
        if isinstance(n, ast.Assign) and isinstance(n.targets[0], ast.Name):
            assigns.setdefault(n.targets[0].id, []).append(n.value)
    roots = [name for name, vals in assigns.items() if any(isinstance(v, ast.Call) and isinstance(v.func, ast.Attribute) and v.func.attr == 'key' and not v.args for v in vals)]
    attrs = {}
    for n in ast.walk(fn):
        if isinstance(n, ast.Assign) and isinstance(n.targets[0], ast.Attribute) and isinstance(n.targets[0].value, ast.Name):
            attrs.setdefault(n.targets[0].value.id, {})[n.targets[0].attr] = norm(n.value)
    ctx.saw('root keys rebuilt from the database: %s ; attributes set on them: %s' % (sorted(roots), {r: attrs.get(r, {}) for r in sorted(roots)}))
    calls = [c for c in ast.walk(fn) if isinstance(c, ast.Call) and unparse(c.func) == 'WalletKey.from_key']
    ctx.floor(len(calls), 2, 'WalletKey.from_key calls in keys_for_path')
    for c in calls:
        kv = [k.value for k in c.keywords if k.arg == 'key']
        if not kv or not isinstance(kv[0], ast.Name):
            ctx.undecided('keys_for_path: key argument of WalletKey.from_key is not a plain name')
        # walk back through `x = y.subkey_for_path(...)`
        seen, todo, bases = set(), [kv[0].id], set()
        while todo:
            nm = todo.pop()
            if nm in seen:
                continue
            seen.add(nm)
            if nm in roots:
                bases.add(nm)
            for v in assigns.get(nm, []):
                if isinstance(v, ast.Call) and isinstance(v.func, ast.Attribute) and v.func.attr == 'subkey_for_path' and isinstance(v.func.value, ast.Name):
                    todo.append(v.func.value.id)
        if not bases:
            ctx.undecided('keys_for_path: the key given to WalletKey.from_key at line %d does not descend from a rebuilt root key' % c.lineno)
        for r in sorted(bases):
            got = attrs.get(r, {})
            if got.get('witness_type') != 'witness_type' or got.get('encoding') != 'encoding':
                ctx.violate(q, 'keys created at line %d descend from `%s = topkey.key()` whose witness_type / encoding are not set to the requested values (set: %s)' % (c.lineno, r, got or 'nothing'), c,
                            'litecoin segwit wallet: get_keys(number_of_keys=3) stores the third key with witness_type p2sh-segwit')


@PROP.obligation('C09.restore-inputs', canaries=[
    mut.replace_expr('wallets', 'Wallet.create', 'Mnemonic().to_seed(key, password)', 'Mnemonic().to_seed(key)', 'BIP39 passphrase dropped when a wallet is restored from a mnemonic'),
])
def restore_inputs(ctx):
    """Wallet.create: every conversion of user key material into an HDKey (mnemonic sentence -> seed -> key; formatted key / BIP38 string
    -> key) receives the password, the network and the witness type the caller gave: a wallet restored from `words + passphrase` must
    be the wallet of that seed, not of the bare words."""
    q = 'wallets:Wallet.create'
    fn = ctx.repo.func(q)
    n = 0
    for a_ in ast.walk(fn):
        if not (isinstance(a_, ast.Assign) and norm(a_.targets[0]) == 'key' and isinstance(a_.value, ast.Call)):
            continue
        f = norm(a_.value.func)
        if not (f == 'HDKey' or f.startswith('HDKey.from_')):
            continue
        n += 1
        params = set(x.id for x in ast.walk(a_.value) if isinstance(x, ast.Name))      # arguments written in the call itself
        ctx.saw('line %d: key = %s(...) uses parameters %s' % (a_.lineno, f, sorted(params & {'password', 'network', 'witness_type'})))
        for need, why in (('password', 'the BIP39 / BIP38 passphrase is ignored: the wallet of the bare mnemonic is created'),
                          ('network', 'the key is created on the default network'), ('witness_type', 'the key gets the default witness type')):
            ctx.require(need in params, q, 'the conversion `key = %s(...)` at line %d does not use the %s argument' % (f, a_.lineno, need), a_, why)
    ctx.floor(n, 2, 'key conversions in Wallet.create')


@PROP.obligation('C09.path-columns', canaries=[
    mut.replace_expr('wallets', 'Wallet.keys_for_path', 'not account_id', 'account_id is None', 'account column not re-derived from an explicit path'),
    mut.replace_expr('wallets', 'Wallet.keys_for_path', "int(fullpath[change_pos[0]].strip(\"'\"))", '0', 'change column not taken from the path'),
])
def path_columns(ctx):
    """Wallet.keys_for_path, creation loop, evaluated on the explicit path m/84'/0'/3'/1/7 in a wallet whose default account is 0: every
    key record created along the path is stored with account_id 3 and change 1 (the columns the next-index query filters on) and with
    the path prefix of its own level."""
    q = 'wallets:Wallet.keys_for_path'
    fn = ctx.repo.func(q)
    loops = [n for n in ast.walk(fn) if isinstance(n, ast.For) and norm(n.iter) == 'fullpath[n_items:]']
    if len(loops) != 1:
        ctx.undecided('keys_for_path: creation loop over the missing path levels not found')
    full = ['m', "84'", "0'", "3'", '1', '7']
    it = Interp(ctx.repo, 'wallets', self_cls='wallets:Wallet')
    st = State(env={'self': S(SELF), 'fullpath': list(full), 'n_items': 3, 'account_id': 0, 'ck': S(('var', 'ck')), 'newpath': "m/84'/0'", 'name': None, 'parent_id': S(('var', 'pid')),
                    'purpose': 84, 'encoding': 'bech32', 'witness_type': 'segwit', 'cosigner_id': None, 'network': 'bitcoin', 'change': 0, 'nkey': None})
    st.heap[A(SELF, 'key_path')] = list(BIP44)
    seen = []
    it.obs_call = lambda name, base, args, kwargs, st_, node: seen.append({k: kwargs.get(k) for k in ('account_id', 'change', 'path')}) if name == 'from_key' else None
    it.frames.append([])
    # the statements between `n_items = ...` and the loop (loop-invariant derivations hoisted out of it) belong to the scenario
    block = [b for n in ast.walk(fn) for f in ('body', 'orelse', 'finalbody') for b in [getattr(n, f, None)] if isinstance(b, list) and loops[0] in b]
    stmts = block[0][:block[0].index(loops[0]) + 1]
    starts = [i for i, x in enumerate(stmts) if isinstance(x, ast.Assign) and norm(x.targets[0]) == 'n_items']
    stmts = stmts[starts[-1] + 1:] if starts else stmts[-1:]
    try:
        for x in stmts:
            it.exec_stmt(x, st)
    except AnalysisError as e:
        ctx.undecided('keys_for_path: creation loop not evaluable: %s' % str(e)[:100])
    if len(seen) != 3:
        ctx.undecided('keys_for_path: %d key records created for 3 missing levels' % len(seen))
    for i, kw in enumerate(seen):
        ctx.saw('level %d: account_id=%s change=%s path=%s' % (i + 3, show(term(kw['account_id'])), show(term(kw['change'])), show(term(kw['path']))))
        ctx.require(kw['account_id'] == 3, q, 'the key at %s is stored with account_id %s (default account of the wallet) instead of 3' % ('/'.join(full[:4 + i]), show(term(kw['account_id']))), loops[0],
                    "after key_for_path(\"m/84'/0'/3'/0/0\") new_key(account_id=3) keeps returning that same key")
        ctx.require(kw['path'] == '/'.join(full[:4 + i]), q, 'the key at level %d is stored with path %s' % (i + 3, show(term(kw['path']))), loops[0])
    ctx.require(seen[-1]['change'] == 1, q, 'the address key is stored with change %s instead of 1' % show(term(seen[-1]['change'])), loops[0], 'the next-index query of the change chain does not see it')
    # bulk request whose first key already exists (no level is missing): the remaining keys of the batch carry the same columns
    it = Interp(ctx.repo, 'wallets', self_cls='wallets:Wallet')
    top = S(('var', 'topkey'))
    st = State(env={'self': S(SELF), 'fullpath': list(full), 'n_items': 6, 'account_id': 0, 'ck': S(('var', 'ck')), 'newpath': '/'.join(full), 'name': None, 'parent_id': S(('var', 'pid')),
                    'purpose': 84, 'encoding': 'bech32', 'witness_type': 'segwit', 'cosigner_id': None, 'network': 'bitcoin', 'change': 0, 'nkey': None, 'new_keys': [top],
                    'number_of_keys': 3, 'topkey': top})
    st.heap[A(SELF, 'key_path')] = list(BIP44)
    bulk = []
    it.obs_call = lambda name, base, args, kwargs, st_, node: bulk.append({k: kwargs.get(k) for k in ('account_id', 'change', 'path')}) if name == 'from_key' else None
    it.frames.append([])
    rest = block[0][block[0].index(loops[0]) + 1:]
    try:
        for x in stmts + rest:
            it.exec_stmt(x, st)
    except AnalysisError as e:
        ctx.undecided('keys_for_path: bulk creation after an existing first key not evaluable: %s' % str(e)[:100])
    if len(bulk) != 2:
        ctx.undecided('keys_for_path: %d key records created for a batch of 3 whose first key exists' % len(bulk))
    for i, kw in enumerate(bulk):
        ctx.saw('batch key %d after an existing first key: account_id=%s change=%s path=%s' % (i + 1, show(term(kw['account_id'])), show(term(kw['change'])), show(term(kw['path']))))
        ctx.require(kw['path'] == '/'.join(full[:5] + [str(8 + i)]), q, 'batch key %d is stored with path %s' % (i + 1, show(term(kw['path']))), loops[0])
        ctx.require(kw['change'] == 1, q, 'batch key %s after an existing first key is stored with change %s instead of 1' % (show(term(kw['path'])), show(term(kw['change']))), loops[0],
                    'the change column is only derived from the path while a missing level is created; new_key_change() then issues the index again')
        ctx.require(kw['account_id'] == 3, q, 'batch key %s after an existing first key is stored with account_id %s instead of 3' % (show(term(kw['path'])), show(term(kw['account_id']))), loops[0])


@PROP.obligation('C09.multisig-columns', canaries=[
    mut.replace_expr('wallets', 'Wallet.keys_for_path', 'address_index + n', 'address_index', 'every multisig key of a batch stored with the first index'),
    mut.replace_expr('wallets', 'Wallet.keys_for_path', "int(fullpath[key_path.index('change')])", 'change', 'multisig change column not taken from the path'),
    mut.replace_expr('wallets', 'Wallet.keys_for_path', "int(fullpath[key_path.index('address_index')])", 'address_index', 'multisig index column not taken from the path'),
])
def multisig_columns(ctx):
    """Wallet._new_key_multisig stores the multisig record with the path of a cosigner key; its change and address_index columns (which the
    next-index query of new_keys orders and filters on) are read from that same key, or are the arguments - and then keys_for_path derives
    them from the expanded path and passes a different index for every key of a batch: a record whose path says .../1/7 while its columns
    say 0/0 makes new_key hand out an existing address again."""
    q = 'wallets:Wallet._new_key_multisig'
    fn = ctx.repo.func(q)
    calls = [c for c in ast.walk(fn) if isinstance(c, ast.Call) and unparse(c.func) == 'DbKey' and any(k.arg == 'path' for k in c.keywords)]
    if len(calls) != 1:
        ctx.undecided('_new_key_multisig: DbKey(...) of the multisig record not found')
    kw = {k.arg: k.value for k in calls[0].keywords}
    rd = ReachingDefs(fn)
    nid = rd.node_of_ast(calls[0])
    plv = rd.leaves(kw['path'], nid)
    src = sorted(x[1] for x in plv if x[0] == 'attr' and x[1].endswith('.path'))
    ctx.saw('path column comes from %s' % sorted(str(x) for x in plv if x[0] in ('attr', 'param')))
    if not src or ('param', 'public_keys') not in plv:
        ctx.undecided('_new_key_multisig: path column is not taken from one of the cosigner keys')
    own = src[0][:-len('.path')]
    kq = 'wallets:Wallet.keys_for_path'
    kfp = ctx.repo.func(kq)
    sites = [(l, c) for l in ast.walk(kfp) if isinstance(l, ast.For) for c in ast.walk(l) if isinstance(c, ast.Call) and unparse(c.func) == 'self._new_key_multisig']
    if not sites:
        ctx.undecided('keys_for_path: batch loop calling _new_key_multisig not found')
    krd = ReachingDefs(kfp)
    params = [a.arg for a in fn.args.args]
    for col in ('address_index', 'change'):
        if col not in kw:
            ctx.violate(q, 'multisig record stored without %s' % col, calls[0])
            continue
        lv = rd.leaves(kw[col], nid)
        ctx.saw('%s column comes from %s' % (col, sorted(str(x) for x in lv if x[0] in ('attr', 'param', 'const'))))
        if [x for x in lv if x[0] == 'attr' and x[1] == '%s.%s' % (own, col)] and ('param', col) not in lv:
            continue
        if ('param', col) not in lv:
            ctx.unsure('%s: %s column is neither the argument nor read from the key the path comes from' % (q, col))
            continue
        for loop, c in sites:
            pos = params.index(col) - 1
            arg = c.args[pos] if pos < len(c.args) else next((k.value for k in c.keywords if k.arg == col), None)
            if arg is None:
                ctx.violate(kq, 'batch loop does not pass %s to _new_key_multisig' % col, c)
                continue
            alv = krd.leaves(arg, krd.node_of_ast(c))
            from_path = ('call', 'path_expand') in alv
            assigned = set(t.id for n in ast.walk(loop) for t in ([n.target] if isinstance(n, (ast.AugAssign, ast.For)) else n.targets if isinstance(n, ast.Assign) else [])
                           for t in ast.walk(t) if isinstance(t, ast.Name))
            varies = any(isinstance(x, ast.Name) and x.id in assigned for x in ast.walk(arg))
            ctx.saw('batch loop passes %s=%s (%s, %s)' % (col, norm(arg), 'derived from the expanded path' if from_path else 'the caller argument as is', 'per key' if varies else 'same for every key'))
            if not from_path:
                ctx.violate(kq, 'multisig record is stored with %s = the %s argument of keys_for_path (%s) while its path column comes from %s.path of the expanded path' % (col, col, norm(arg), own), c,
                            'key_for_path([1, 3]) stores the record of m/.../1/3 with change 0 and index 0: new_key() later reaches that address, finds it present and returns the same key for ever')
            if col == 'address_index' and not varies:
                ctx.violate(kq, 'every multisig key of a batch is stored with the same address_index (%s)' % norm(arg), c,
                            'after get_keys(number_of_keys=3) the records m/.../0/0..2 all carry index 0: new_key() computes index 1, finds its address present and returns the existing key again')


@PROP.obligation('C09.scope-forwarding', canaries=[
    mut.replace_expr('wallets', 'Wallet.address_index', 'self.key_for_path([], address_index=address_index, account_id=account_id, cosigner_id=cosigner_id, change=change, network=network)', 'self.key_for_path([], address_index=address_index, account_id=account_id, cosigner_id=cosigner_id, change=change)', 'address_index answers from the default network'),
    mut.replace_expr('wallets', 'Wallet.new_key', 'self.new_keys(name, account_id, change, cosigner_id, witness_type, 1, network)', 'self.new_keys(name, account_id, change, cosigner_id, witness_type, 1)', 'new_key creates on the default network'),
])
def scope_forwarding(ctx):
    """A Wallet method that takes network / account_id / witness_type / change / cosigner_id and delegates to another Wallet method with a
    parameter of that name passes it on (positional or keyword); the *_change wrappers (new_key_change, get_key_change,
    get_keys_change) pass change=1 to the method they wrap."""
    from .common_forward import forwarding as run
    run(ctx, 'wallets', 'Wallet', 'the key is looked up / created on the default network, default account or payment chain instead of the requested one: wrong path and address for the request', 140)
    m = ctx.repo.mod('wallets')
    n = 0
    for q, f in sorted(m.functions.items()):
        if not (q.startswith('Wallet.') and q.endswith('_change') and q.count('.') == 1):
            continue
        calls = [c for c in ast.walk(f) if isinstance(c, ast.Call) and isinstance(c.func, ast.Attribute) and isinstance(c.func.value, ast.Name) and c.func.value.id == 'self'
                 and ('Wallet.' + c.func.attr) in m.functions and 'change' in [a.arg for a in m.functions['Wallet.' + c.func.attr].args.args]]
        if not calls:
            ctx.unsure('wallets:%s: no delegation to a method with a change parameter' % q)
            continue
        for c in calls:
            n += 1
            g = m.functions['Wallet.' + c.func.attr]
            gps = [a.arg for a in g.args.args][1:]
            i = gps.index('change')
            val = c.args[i] if i < len(c.args) else next((k.value for k in c.keywords if k.arg == 'change'), None)
            ctx.saw('%s -> %s(change=%s)' % (q, c.func.attr, norm(val) if val is not None else 'default'))
            ctx.require(val is not None and isinstance(val, ast.Constant) and val.value == 1, 'wallets:' + q, 'the change wrapper calls `%s` with change=%s' % (norm(c)[:90], norm(val) if val is not None else 'the default 0'), c,
                        'keys handed out as change keys lie on the payment chain m/.../0/i: the same addresses get_key() hands out for receiving')
    ctx.floor(n, 3, 'change wrappers')


COLS = {'wallet_id': 'wallet_id', 'purpose': 'purpose', 'account_id': 'account_id', 'change': 'change', 'parent_id': 'parent_id', 'path': 'path', 'key_type': 'key_type',
        'network_name': 'network', 'encoding': 'encoding', 'cosigner_id': 'cosigner_id', 'witness_type': 'witness_type', 'depth': 'k.depth', 'address': 'address',
        'address_index': 'address_index', 'public': 'k.public_byte', 'private': 'k.private_byte', 'compressed': 'k.compressed', 'is_private': 'k.is_private',
        'wif': 'k.wif(witness_type=witness_type, multisig=multisig, is_private=True)'}


@PROP.obligation('C09.stored-fields', canaries=[
    mut.replace_expr('wallets', 'WalletKey.from_key', 'k.child_index % 2147483648', 'k.child_index', 'hardened marker kept in the stored index'),
    mut.replace_expr('wallets', 'WalletKey.from_key', 'k.address(encoding=encoding, script_type=script_type)', 'k.address()', 'address stored with the default encoding of the key'),
    mut.replace_expr('db', None, "UniqueConstraint('wallet_id', 'address', name='constraint_wallet_address_unique')", "UniqueConstraint('wallet_id', 'address', 'id', name='constraint_wallet_address_unique')", 'address uniqueness not enforced'),
])
def stored_fields(ctx):
    """WalletKey.from_key (HD key branch) stores DbKey(column = value) with address = k.address(encoding=encoding, script_type=script_type),
    script_type = script_type_default(witness_type, multisig), address_index = k.child_index % 2^31, wif / public / private / depth from the
    key and every other column from the argument of the same name; DbKey declares (wallet_id, address) and (wallet_id, wif) unique."""
    q = 'wallets:WalletKey.from_key'
    fn = ctx.repo.func(q)
    calls = [c for c in ast.walk(fn) if isinstance(c, ast.Call) and unparse(c.func) == 'DbKey' and any(k.arg == 'wif' for k in c.keywords)]
    if len(calls) != 1:
        ctx.undecided('WalletKey.from_key: DbKey(...) of the key branch not found')
    kw = {k.arg: norm(k.value) for k in calls[0].keywords}
    n = 0
    kwn = {k.arg: k.value for k in calls[0].keywords}
    for col, src in COLS.items():
        n += 1
        ctx.match(q, 'column %s' % col, kwn.get(col), src, fn, calls[0], 'the persisted key does not describe the derived key')
    ctx.saw('%d columns of DbKey(...) come from the derived key / the argument of the same name' % n)
    defs = {}
    for s in ast.walk(fn):
        if isinstance(s, ast.Assign) and isinstance(s.targets[0], ast.Name) and s.targets[0].id in ('address', 'address_index', 'script_type'):
            defs.setdefault(s.targets[0].id, []).append(norm(s.value))
    ctx.saw('address = %s ; address_index = %s ; script_type = %s' % (defs.get('address'), defs.get('address_index'), defs.get('script_type')))
    for name, exp, why in (('address', 'k.address(encoding=encoding, script_type=script_type)', 'the stored address is not the one of the requested witness type'),
                           ('address_index', 'k.child_index % 2147483648', 'hardened indexes are stored with the marker bit'),
                           ('script_type', 'script_type_default(witness_type, multisig)', '')):
        vals = defs.get(name) or [None]
        if len(vals) != 1:
            ctx.unsure('%s: %s is assigned in %d places' % (q, name, len(vals)))
        else:
            ctx.match(q, 'local %s' % name, vals[0], exp, None, fn, why)
    cls = ctx.repo.cls('db:DbKey')
    targs = [n for n in cls.body if isinstance(n, ast.Assign) and unparse(n.targets[0]) == '__table_args__']
    if not targs:
        ctx.undecided('db:DbKey.__table_args__ not found')
    uniq = [tuple(a.value for a in c.args if isinstance(a, ast.Constant)) for c in ast.walk(targs[0]) if isinstance(c, ast.Call) and unparse(c.func) == 'UniqueConstraint']
    ctx.saw('DbKey unique constraints: %s' % uniq)
    for u in (('wallet_id', 'address'), ('wallet_id', 'wif')):
        ctx.require(u in uniq, 'db:DbKey', 'no unique constraint on %s' % (u,), targs[0], 'two keys of a wallet can share an address')


@PROP.obligation('C09.new-account', canaries=[
    mut.replace_expr('wallets', 'Wallet.new_account', 'qr.account_id + 1', 'qr.account_id', 'existing account number reused'),
])
def new_account(ctx):
    """Wallet.new_account without account_id: highest existing account of (wallet, witness type, network) + 1, selected by
    order_by(DbKey.account_id.desc()).first(); an account that already has a key at the account level raises; the account key and the
    first receive / change keys are created through key_for_path with that account."""
    q = 'wallets:Wallet.new_account'
    fn = ctx.repo.func(q)
    asg = [n for n in ast.walk(fn) if isinstance(n, ast.Assign) and unparse(n.targets[0]) == 'qr']
    if len(asg) != 1:
        ctx.undecided('Wallet.new_account: highest-account query not found')
    qs = parse_chain(asg[0].value)
    if qs is None:
        ctx.undecided('Wallet.new_account: highest-account lookup is not a query chain')
    ctx.saw('highest account: filter_by %s order_by %s terminal %s' % (qs.filter_by, qs.order_by, qs.terminal))
    for col, src in (('wallet_id', 'self.wallet_id'), ('witness_type', 'witness_type'), ('network_name', 'network')):
        if col not in qs.filter_by:
            ctx.violate(q, 'highest-account query does not filter on %s' % col, asg[0], 'accounts of another wallet / witness type / network are counted')
        else:
            ctx.match(q, 'filter %s of the highest-account query' % col, qs.filter_by[col], src, fn, asg[0])
    if qs.terminal != 'first' or len(qs.order_by) != 1:
        ctx.unsure('%s: highest account selected by %s / %s' % (q, qs.order_by, qs.terminal))
    else:
        ctx.match(q, 'order of the highest-account query', qs.order_by[0], 'DbKey.account_id.desc()', fn, asg[0], 'new_account does not continue after the highest account')
    inc = [n for n in ast.walk(fn) if isinstance(n, ast.Assign) and unparse(n.targets[0]) == 'account_id' and 'qr' in unparse(n.value)]
    if len(inc) != 1:
        ctx.unsure('%s: next account not derived from the query in one place' % q)
    elif norm(inc[0].value) == 'qr.account_id':
        ctx.violate(q, 'next account is qr.account_id: an existing account number is reused', inc[0], 'new_account returns an account that exists')
    elif norm(inc[0].value) not in ('qr.account_id + 1', '1 + qr.account_id'):
        ctx.unsure('%s: next account is %s' % (q, norm(inc[0].value)))
    dup = [n for n in walk_no_nested(fn) if isinstance(n, ast.If) and n.body and isinstance(n.body[0], ast.Raise) and 'self.keys(' in unparse(n.test) and 'account_id=account_id' in unparse(n.test)]
    ctx.require(bool(dup), q, 'an existing account is not refused', fn)
    calls = [c for c in ast.walk(fn) if isinstance(c, ast.Call) and unparse(c.func) == 'self.key_for_path']
    ctx.floor(len(calls), 3, 'key_for_path calls in new_account')
    for c in calls:
        kw = {k.arg: norm(k.value) for k in c.keywords}
        ctx.require(kw.get('account_id') == 'account_id' and kw.get('witness_type') == 'witness_type' and kw.get('network') == 'network', q,
                    'key_for_path is called with %s' % kw, c)


@PROP.obligation('C09.public-copy', canaries=[
    mut.replace_expr('wallets', 'WalletKey.public', 'copy(self)', 'self', 'public() strips the cached wallet key itself'),
])
def public_copy(ctx):
    """WalletKey.public() (used by Wallet.public_master) strips the private parts from a COPY. The wallet caches its WalletKey objects;
    stripping the cached account key in place makes every key derived from it afterwards public-only - also in the database - so the
    wallet hands out keys it cannot sign for. The object whose attributes are cleared must be defined as copy(self) / deepcopy(self) /
    a constructor call, never as self; and no attribute of self is assigned. Same for Key.public and HDKey.public."""
    for q in ('wallets:WalletKey.public', 'keys:Key.public', 'keys:HDKey.public'):
        fn = ctx.repo.func(q)
        cleared = {}
        for n in ast.walk(fn):
            if isinstance(n, ast.Assign) and isinstance(n.targets[0], ast.Attribute) and isinstance(n.targets[0].value, ast.Name):
                cleared.setdefault(n.targets[0].value.id, []).append(n)
        if not cleared:
            ctx.undecided('%s: no attribute is cleared' % q)
        origin = {}
        for n in ast.walk(fn):
            if isinstance(n, ast.Assign) and isinstance(n.targets[0], ast.Name) and n.targets[0].id in cleared:
                origin[n.targets[0].id] = norm(n.value)
        ctx.saw('%s clears attributes of %s' % (q, {k: origin.get(k, '(not assigned here)') for k in cleared}))
        for name, nodes in cleared.items():
            if name == 'self':
                ctx.violate(q, 'public() assigns attributes of self (%s): the key object the caller keeps is stripped' % ', '.join(sorted(set(norm(x.targets[0]) for x in nodes))), nodes[0],
                            'after wallet.public_master(account_id=N) the wallet derives public-only keys for account N')
                continue
            src = origin.get(name)
            if src == 'self':
                ctx.violate(q, '`%s = self`: public() strips the object itself instead of a copy' % name, nodes[0],
                            'after wallet.public_master(account_id=N) the wallet derives public-only keys for account N')
            elif src is None or not any(src.startswith(p_) for p_ in ('copy(self)', 'deepcopy(self)', 'copy.copy(self)', 'copy.deepcopy(self)')):
                ctx.unsure('%s: origin of `%s` not recognised: %s' % (q, name, src))


@PROP.obligation('C09.arg-binding')
def arg_binding(ctx):
    """Calls inside wallets that pass two or more positional arguments: a variable passed positionally must not land on a parameter of another
    name while the callee has a parameter of the variable's own name elsewhere (argument inserted / dropped / swapped)."""
    from .common_argsel import arg_binding as run
    run(ctx, ['wallets'], 'the wallet method is called with shifted arguments: keys of another account / witness type / network')


@PROP.obligation('C09.public-master-forwarding', canaries=[
    mut.replace_expr('wallets', 'Wallet.public_master', 'self.key_for_path([], depth, name=name, account_id=account_id, network=network, cosigner_id=self.cosigner_id, witness_type=witness_type)',
                     'self.key_for_path([], depth, name=name, account_id=account_id, cosigner_id=self.cosigner_id, witness_type=witness_type)', 'account key exported for the default network'),
])
def public_master_forwarding(ctx):
    """Wallet.public_master derives the account key with key_for_path(..., account_id=account_id, network=network, witness_type=...): the
    account, network and witness type the caller asked for are forwarded, otherwise the account key of the default network / account is
    exported and a watch-only wallet built from it shows other addresses."""
    q = 'wallets:Wallet.public_master'
    fn = ctx.repo.func(q)
    calls = [c for c in ast.walk(fn) if isinstance(c, ast.Call) and norm(c.func) == 'self.key_for_path']
    if len(calls) != 1:
        ctx.undecided('public_master: key_for_path call not found')
    kw = {k.arg: k.value for k in calls[0].keywords}
    ctx.saw('key_for_path(%s)' % ', '.join('%s=%s' % (k, norm(v)) for k, v in sorted(kw.items())))
    for name in ('account_id', 'network', 'witness_type'):
        if name not in kw:
            ctx.violate(q, 'key_for_path is called without %s=: the caller\'s %s is ignored' % (name, name), calls[0],
                        'public_master(network=testnet) of a multi-network wallet returns the bitcoin account key')
        else:
            ctx.match(q, 'argument %s of key_for_path' % name, kw[name], name, fn, calls[0])


@PROP.obligation('C09.mixed-witness-guard', canaries=[
    mut.replace_expr('wallets', 'Wallet.keys_for_path', 'not self.main_key or not self.main_key.is_private or self.main_key.depth != 0', 'not self.main_key or not self.main_key.is_private', 'account-level private keys may serve other witness types'),
])
def mixed_witness_guard(ctx):
    """Wallet.keys_for_path refuses another witness type unless the wallet holds a private MASTER key (depth 0): from an account-level key
    (depth 3 of one purpose) the paths of another purpose cannot be derived. The guard is evaluated for main keys (private, depth 0),
    (private, depth 3), (public, depth 3) with a different witness type on a non-multisig wallet."""
    q = 'wallets:Wallet.keys_for_path'
    fn = ctx.repo.func(q)
    ifs = [n for n in walk_no_nested(fn) if isinstance(n, ast.If) and n.body and isinstance(n.body[0], ast.Raise) and 'witness' in norm(n.body[0]).lower() and 'witness_type' in norm(n.test)]
    if len(ifs) != 1:
        ctx.undecided('keys_for_path: guard against other witness types not found')
    it = Interp(ctx.repo, 'wallets', self_cls='wallets:Wallet')
    MK = A(SELF, 'main_key')
    res = {}
    for name, priv, depth, exp in (('private master', True, 0, False), ('private account key', True, 3, True), ('public account key', False, 3, True)):
        st = State(env={'self': S(SELF), 'witness_type': 'legacy'})
        st.heap[MK] = S(('mk',))
        st.heap[A(('mk',), 'is_private')] = priv
        st.heap[A(('mk',), 'depth')] = depth
        st.heap[A(SELF, 'witness_type')] = 'segwit'
        st.heap[A(SELF, 'multisig')] = False
        it.decide = lambda t: True if t == ('mk',) else None
        v = it.truth(it.eval(ifs[0].test, st), st)
        res[name] = v if isinstance(v, bool) else show(term(v))[:50]
        if not isinstance(v, bool):
            ctx.undecided('keys_for_path: witness-type guard not decidable for %s' % name)
        if v != exp:
            ctx.violate(q, 'wallet with a %s, request for another witness type: %s' % (name, 'accepted' if exp else 'refused'), ifs[0],
                        'a wallet restored from the BIP84 account zprv hands out "legacy" keys that are BIP84 children in another encoding')
    ctx.saw('request for another witness type refused: %s' % res)


@PROP.obligation('C09.explicit-falsy')
def explicit_falsy(ctx):
    """A parameter of wallets.py that gets its default through a truthiness test (`p = p or d`, `if not p: p = d`) is never passed an explicit falsy constant (0, False, '') by a caller inside the package: account 0, change 0, cosigner 0 and index 0 are values, not "absent"."""
    from .common_falsy import falsy_defaults as run
    run(ctx, ['wallets'], 'account / cosigner / index 0 given on purpose is replaced by the wallet default: the key is looked up or created at another path')


@PROP.obligation('C09.structure-lookups', canaries=[
    mut.replace_expr('wallets', 'Wallet.new_keys', 'get_key_structure_data(witness_type, self.multisig)', 'get_key_structure_data(witness_type)', 'next-index query of a multisig wallet uses the single-signature purpose'),
    mut.replace_expr('wallets', 'Wallet.keys_for_path', 'get_key_structure_data(witness_type, self.multisig)', 'get_key_structure_data(witness_type)', 'mixed-witness keys of a multisig wallet created under the single-signature purpose'),
])
def structure_lookups(ctx):
    """The row of WALLET_KEY_STRUCTURES (purpose, path template, encoding) is selected by (witness type, multisig): every call of
    get_key_structure_data inside wallets.py and keys.py passes the multisig flag of the wallet / key it works for as second argument.
    Without it a multisig wallet looks its keys up under purpose 44 / 49 / 84 while they are stored under 45 / 48: the previous key of the
    chain is never found and index 0 is issued again."""
    n = 0
    for mn in ('wallets', 'keys'):
        m = ctx.repo.mod(mn)
        for q, f in sorted(m.functions.items()):
            for c in ast.walk(f):
                if not (isinstance(c, ast.Call) and norm(c.func) == 'get_key_structure_data'):
                    continue
                n += 1
                second = c.args[1] if len(c.args) > 1 else next((k.value for k in c.keywords if k.arg == 'multisig'), None)
                ctx.saw('%s:%s: %s' % (mn, q, norm(c)[:80]))
                if second is None:
                    ctx.violate('%s:%s' % (mn, q), '`%s` selects the key structure without the multisig flag (default False)' % norm(c)[:80], c,
                                'on a multisig wallet every further new_key() of a second witness type returns the first key of that chain again')
                elif 'multisig' not in norm(second):
                    ctx.unsure('%s:%s: structure selected with `%s` as multisig flag' % (mn, q, norm(second)))
    ctx.floor(n, 6, 'structure lookups')


@PROP.obligation('C09.requested-network', canaries=[
    mut.replace_expr('wallets', 'Wallet.create', 'network and network != key.network.name', 'network and network != key.network.name and Network(network).prefix_wif != key.network.prefix_wif',
                     'key objects of a network with the same WIF version accepted, then their network adopted'),
])
def requested_network(ctx):
    """Wallet.create(..., keys=<HDKey object>, network=X): the statement that handles one key of the list is evaluated for a key object of
    network K and a requested network X over a table of (X, K) pairs, with Network(...) answering from data/networks.json. Whenever the
    wallet is created (no raise) and a network was requested, the network it continues with IS the requested one - a key of a sibling
    network (regtest / bitcoin, testnet / signet / testnet4, litecoin / litecoin_legacy share version bytes) does not silently replace it."""
    import json
    import os
    q = 'wallets:Wallet.create'
    fn = ctx.repo.func(q)
    loops = [n for n in ast.walk(fn) if isinstance(n, ast.For) and norm(n.iter) == 'keys' and any(isinstance(x, ast.Call) and norm(x.func) == 'isinstance' and 'HDKey' in norm(x) for x in ast.walk(n))]
    if len(loops) != 1:
        ctx.undecided('Wallet.create: the loop over the supplied keys was not found (%d candidates)' % len(loops))
    try:
        data = json.load(open(os.path.join(ctx.repo.root, 'bitcoinlib', 'data', 'networks.json')))
    except Exception as e:
        ctx.undecided('networks.json unreadable: %r' % e)
    pairs = [('regtest', 'bitcoin'), ('bitcoin', 'regtest'), ('testnet', 'bitcoin'), ('signet', 'testnet'), ('testnet4', 'testnet'), ('litecoin_testnet', 'testnet'),
             ('litecoin_legacy', 'litecoin'), ('litecoin', 'bitcoin'), ('bitcoin', 'bitcoin'), ('testnet', 'testnet'), (None, 'bitcoin'), (None, 'litecoin')]
    pairs = [(x, k) for x, k in pairs if (x is None or x in data) and k in data]
    n = 0
    for req, knet in pairs:
        K = ('var', 'key')
        NET = ('attr', K, 'network')

        def h_network(it, args, kwargs, st, node, _data=data):
            nm = args[0] if args else kwargs.get('network_name')
            if not isinstance(nm, str) or nm not in _data:
                raise AnalysisError('Network(%s) not in the table' % show(term(nm))[:30])
            base = ('net', nm)
            st.heap.update({('attr', base, a): v for a, v in _data[nm].items() if isinstance(v, (str, int))})
            st.heap[('attr', base, 'name')] = nm
            return S(base)

        def decide(t):
            if isinstance(t, tuple) and t and t[0] == 'isinstance' and t[1] == K:
                return 'HDKey' in show(t[2])
            return None
        it = Interp(ctx.repo, 'wallets', hooks={'Network': h_network}, decide=decide)
        st = State(env={'key': S(K), 'network': req, 'witness_type': None, 'password': '', 'encoding': None, 'scheme': 'bip32', 'hdkey_list': []})
        for a, v in data[knet].items():
            if isinstance(v, (str, int)):
                st.heap[('attr', NET, a)] = v
        st.heap[('attr', NET, 'name')] = knet
        st.heap[('attr', K, 'witness_type')] = 'segwit'
        it.frames.append([])
        try:
            end = it.exec_block(loops[0].body, st)
        except AnalysisError as e:
            ctx.undecided('Wallet.create: handling of a %s key object with network=%r not evaluable: %s' % (knet, req, str(e)[:100]))
        raised = [e for e in it.frames[-1] if e.kind == 'raise']
        if end is not None and end.pc:
            ctx.undecided('Wallet.create: outcome for a %s key object with network=%r depends on %s' % (knet, req, [show(t)[:50] for t, _ in end.pc][:2]))
        n += 1
        got = term(end.env.get('network')) if end is not None else None
        ctx.saw('requested %r, key object of %s -> %s' % (req, knet, 'refused' if end is None else 'continues with network %s' % show(got)[:30]))
        if req is None:
            ctx.require(end is not None and got == knet, q, 'without a requested network a %s key object gives network %s' % (knet, 'a refusal' if end is None else show(got)[:30]), loops[0])
        elif req == knet:
            ctx.require(end is not None and got == req, q, 'a %s key object is %s for the requested network %s' % (knet, 'refused' if end is None else 'turned into network %s' % show(got)[:30], req), loops[0])
        else:
            ctx.require(end is None or got == req, q, 'network=%r was requested and a key object of network %s is accepted: the wallet continues with network %s' % (req, knet, show(got)[:30]), loops[0],
                        'Wallet.create(name, keys=key_object, network="%s") silently returns a %s wallet: its addresses are not the ones this seed has on the requested network' % (req, knet))
    ctx.floor(n, 8, '(requested network, key network) pairs')


@PROP.obligation('C09.foreign-network-refused', canaries=[
    mut.drop_stmt('wallets', 'Wallet.new_keys', "if network != self.network.name and", 'request for another network reaches the key derivation of an account-level wallet'),
])
def foreign_network_refused(ctx):
    """A wallet whose key structure has no coin_type level - one restored from an account-level extended key (path M/change/address_index)
    - holds the keys of ONE network. Wallet.new_keys, evaluated as a whole for such a wallet, refuses a request for another network before
    it reaches keys_for_path (which would derive the key from the bitcoin account key and store it as a litecoin key); the same request
    on the wallet's own network, and on a wallet with a coin_type level, goes through."""
    q = 'wallets:Wallet.new_keys'
    fn = ctx.repo.func(q)
    A = lambda b, n: ('attr', b, n)
    n = 0
    for key_path, net, want in ((['M', 'change', 'address_index'], 'litecoin', 'refused'), (['M', 'change', 'address_index'], 'bitcoin', 'derives'),
                                (['m', "purpose'", "coin_type'", "account'", 'change', 'address_index'], 'litecoin', 'derives')):
        reached = []

        def h_kfp(it, base, args, kwargs, st, node):
            reached.append({k: (v if isinstance(v, (str, int, type(None))) else term(v)) for k, v in kwargs.items()})
            return S(('var', 'newkeys'), 'list')

        def h_defaults(it, base, args, kwargs, st, node):
            return (args[0] if args else kwargs.get('network'), 0, S(('var', 'acckey')))
        heap = {A(SELF, 'scheme'): 'bip32', A(SELF, 'key_path'): list(key_path), A(A(SELF, 'network'), 'name'): 'bitcoin', A(SELF, 'multisig'): False,
                A(SELF, 'witness_type'): 'segwit', A(SELF, 'purpose'): 84, A(SELF, 'key_depth'): len(key_path) - 1, A(SELF, 'cosigner_id'): None, A(SELF, 'cosigner'): []}
        it = Interp(ctx.repo, 'wallets', hooks={'.keys_for_path': h_kfp, '._get_account_defaults': h_defaults}, self_cls='wallets:Wallet',
                    decide=lambda t: False if isinstance(t, tuple) and t and t[0] == 'mcall' and t[2] == 'first' else None)
        try:
            exits = it.run_function(fn, {'self': S(SELF), 'name': '', 'account_id': None, 'change': 1, 'cosigner_id': None, 'witness_type': None, 'number_of_keys': 1, 'network': net},
                                    State(heap=heap))
        except AnalysisError as e:
            ctx.undecided('Wallet.new_keys(network=%r) on a wallet with key path %s not evaluable: %s' % (net, '/'.join(key_path), str(e)[:100]))
        if any(e.pc for e in exits):
            ctx.undecided('Wallet.new_keys(network=%r): outcome depends on %s' % (net, [show(t)[:50] for e in exits for t, _ in e.pc][:2]))
        n += 1
        got = 'derives' if reached else 'refused'
        ctx.saw('key path %s, own network bitcoin, requested %s -> %s' % ('/'.join(key_path), net, got))
        if want == 'refused':
            ctx.require(got == 'refused', q, 'a wallet with key path %s (no coin_type level) on bitcoin derives keys for network %s (keys_for_path reached with network=%r)' % ('/'.join(key_path), net, reached[0].get('network') if reached else None), fn,
                        'get_key_change(network="litecoin") on a wallet restored from a bitcoin account key returns M/1/0 of the bitcoin key stored as a litecoin key - not the documented path of that network - and blocks the wallet\'s own change chain after reopening')
        else:
            ctx.require(got == 'derives' and reached[0].get('network') == net, q, 'a request for network %s on a wallet with key path %s is %s' % (net, '/'.join(key_path), got), fn)
    ctx.floor(n, 3, 'network scenarios')


@PROP.obligation('C09.level-offset', canaries=[
    mut.replace_expr('wallets', 'Wallet.keys_for_path', 'level_offset - self.main_key.depth', 'level_offset - self.depth_public_master', 'absolute level converted with the depth of the account level instead of the main key'),
])
def level_offset(ctx):
    """key_for_path(path, level_offset=k) with a positive k asks for the key at absolute depth k of the wallet's path template (k =
    depth_public_master + 1 is the documented way to get the account key). keys_for_path converts it into an offset relative to the MAIN
    key: the statements that compute `level_offset_key` are evaluated for a wallet holding the master key (depth 0) and for one restored
    from an account key (depth 3): the result is k - depth of the main key; negative offsets pass unchanged."""
    q = 'wallets:Wallet.keys_for_path'
    fn = ctx.repo.func(q)
    stmts = [x for x in fn.body if any(isinstance(n, ast.Assign) and any(isinstance(t, ast.Name) and t.id == 'level_offset_key' for t in n.targets) for n in ast.walk(x))]
    if not stmts:
        ctx.undecided('keys_for_path: computation of level_offset_key not found')
    A = lambda b, n: ('attr', b, n)
    MK = ('var', 'mainkey')
    n = 0
    for depth, off, want in ((0, 4, 4), (0, 1, 1), (3, 4, 1), (3, 5, 2), (0, -1, -1), (3, -1, -1), (0, None, None)):
        it = Interp(ctx.repo, 'wallets', self_cls='wallets:Wallet', decide=lambda t: True if t == MK else None)
        st = State(env={'self': S(SELF), 'level_offset': off})
        st.heap.update({A(SELF, 'main_key'): S(MK), A(MK, 'depth'): depth, A(SELF, 'depth_public_master'): 3, A(SELF, 'key_depth'): 5})
        it.frames.append([])
        try:
            for x in stmts:
                st = it.exec_stmt(x, st)
                if st is None:
                    break
        except AnalysisError as e:
            ctx.undecided('keys_for_path: level_offset_key not evaluable for main key depth %d, level_offset %r: %s' % (depth, off, str(e)[:100]))
        got = None if st is None else st.env.get('level_offset_key')
        n += 1
        ctx.saw('main key depth %d, level_offset %r -> level_offset_key %s' % (depth, off, show(term(got))[:30]))
        ctx.require(st is not None and got == want, q, 'a wallet whose main key has depth %d turns level_offset=%r into %s, expected %r' % (depth, off, show(term(got))[:30], want), stmts[0],
                    'w.key_for_path([], w.depth_public_master + 1) on a wallet that holds the master key returns the private master key m instead of the account key: a watch-only wallet built from that "account key" cannot reproduce the addresses')
    ctx.floor(n, 7, 'offset scenarios')


@PROP.obligation('C09.bulk-path-is-key', canaries=[
    mut.replace_expr('wallets', 'Wallet.keys_for_path', 'parent_key.subkey_for_path(key_idx, network=network)', 'parent_key.subkey_for_path(key_idx.strip("\'"), network=network)', 'keys 2..n of a batch are derived without the hardened marker'),
])
def bulk_path_is_key(ctx):
    """keys_for_path(..., number_of_keys=n) derives keys 2..n of a batch in one loop from the parent of the first key. One iteration of that
    loop is evaluated for a hardened last level (key path m/account'/change'/address_index', KEY_PATH_BITCOINCORE) and for a normal one:
    the child handed to WalletKey.from_key is parent_key.subkey_for_path(<x>) where <x> is exactly the last level of the path the key
    is stored under (5' for .../5', 5 for .../5). A key stored as m/0'/0'/5' that really is m/0'/0'/5 is an address the seed does not
    have at that path."""
    q = 'wallets:Wallet.keys_for_path'
    fn = ctx.repo.func(q)
    loops = [n for n in ast.walk(fn) if isinstance(n, ast.For) and norm(n.iter) == 'keys_to_add']
    if len(loops) != 1:
        ctx.undecided('keys_for_path: %d loops over keys_to_add, expected 1' % len(loops))
    loop = loops[0]
    PK = ('var', 'parent_key')
    n = 0
    for hardened, start in ((True, "m/0'/0'/4'"), (False, "m/84'/0'/0'/0/4")):
        seen = []

        def from_key(it, a, kw, st, node):
            seen.append(dict(kw))
            return S(('var', 'wallet_key'))
        it = Interp(ctx.repo, 'wallets', hooks={'WalletKey.from_key': from_key})
        st = State(env={'self': S(SELF), 'key_idx': '5', 'hardened_child': hardened, 'parent_key': S(PK), 'newpath': start, 'new_key_id': 10, 'new_keys': [], 'network': 'bitcoin',
                        'account_id': 0, 'change': 0, 'purpose': 84, 'parent_id': 3, 'encoding': 'bech32', 'witness_type': 'segwit', 'cosigner_id': None})
        it.frames.append([])
        try:
            end = it.exec_block(loop.body, st)
        except AnalysisError as e:
            ctx.undecided('keys_for_path: bulk iteration (hardened=%s) not evaluable: %s' % (hardened, str(e)[:100]))
        it.frames.pop()
        if end is None or len(seen) != 1:
            ctx.undecided('keys_for_path: bulk iteration (hardened=%s) creates %d keys, expected 1' % (hardened, len(seen)))
        kw = seen[0]
        key_t, path = term(kw.get('key')), kw.get('path')
        path = path if isinstance(path, str) else show(term(path))
        arg = None
        if isinstance(key_t, tuple) and len(key_t) >= 4 and key_t[0] == 'mcall' and key_t[1] == PK and key_t[2] == 'subkey_for_path' and key_t[3]:
            arg = key_t[3][0]
        n += 1
        exp_last = "5'" if hardened else '5'
        ctx.saw('last level %s: stored under path %s, derived with parent_key.subkey_for_path(%r)' % ('hardened' if hardened else 'normal', path, arg))
        ctx.require(path == start.rsplit('/', 1)[0] + '/' + exp_last, q, 'key 2 of a batch that starts at %s is stored under path %s, expected .../%s' % (start, path, exp_last), loop)
        ctx.require(arg == path.rsplit('/', 1)[-1], q, 'key 2..n of a batch: stored under path %s but derived with subkey_for_path(%r)' % (path, arg), loop,
                    "new_keys / get_keys / scan with number_of_keys > 1 on a wallet with key path m/account'/change'/address_index' store m/0'/0'/5' for the NON-hardened child m/0'/0'/5: addresses Bitcoin Core does not derive")
    ctx.floor(n, 2, 'bulk iterations')


@PROP.obligation('C09.bulk-sibling-arguments', canaries=[
    mut.Canary('bulk-created keys are stored without the cosigner they belong to', 'wallets', lambda tree: _drop_from_key_kw(tree, 1, 'cosigner_id')),
    mut.Canary('bulk-created keys are stored for the default witness type', 'wallets', lambda tree: _drop_from_key_kw(tree, 1, 'witness_type')),
])
def bulk_sibling_arguments(ctx):
    """keys_for_path stores a key through WalletKey.from_key at two places: the loop that walks the path (first key of a batch, every single
    key) and the bulk loop (keys 2..n). Both describe the same kind of row, so they agree: the bulk call passes every keyword the
    single-key call passes (account_id, change, cosigner_id, encoding, network, parent_id, path, purpose, witness_type ...), and the
    scope keywords carry the same variable at both sites. A keyword missing in the bulk call gives keys 2..n of new_keys / get_keys /
    scan another network, witness type, account or cosigner than key 1."""
    q = 'wallets:Wallet.keys_for_path'
    fn = ctx.repo.func(q)
    calls = [c for c in ast.walk(fn) if isinstance(c, ast.Call) and norm(c.func) == 'WalletKey.from_key']
    if len(calls) != 2:
        ctx.undecided('keys_for_path: %d WalletKey.from_key calls, expected 2' % len(calls))
    calls.sort(key=lambda c: c.lineno)
    single, bulk = [{k.arg: k.value for k in c.keywords if k.arg} for c in calls]
    missing = sorted(set(single) - set(bulk))
    ctx.saw('single-key call passes %s; bulk call passes %s' % (sorted(single), sorted(bulk)))
    ctx.require(not missing, q, 'the bulk call of WalletKey.from_key does not pass %s, which the single-key call passes' % ', '.join(m_ + '=' for m_ in missing), calls[1],
                'keys 2..n of a batch are stored with the default of that argument: another cosigner / witness type / network than the first key of the same request')
    n = 0
    for kw in ('account_id', 'change', 'cosigner_id', 'encoding', 'network', 'purpose', 'witness_type', 'wallet_id', 'session'):
        if kw in single and kw in bulk:
            n += 1
            ctx.require(norm(single[kw]) == norm(bulk[kw]), q, 'the two WalletKey.from_key calls disagree on %s= (`%s` / `%s`)' % (kw, norm(single[kw]), norm(bulk[kw])), calls[1],
                        'keys 2..n of a batch belong to another %s than key 1' % kw)
    ctx.floor(n, 8, 'scope keywords compared')


def _drop_from_key_kw(tree, which, kw):
    for cls in tree.body:
        if isinstance(cls, ast.ClassDef) and cls.name == 'Wallet':
            for f in cls.body:
                if isinstance(f, ast.FunctionDef) and f.name == 'keys_for_path':
                    calls = sorted([c for c in ast.walk(f) if isinstance(c, ast.Call) and norm(c.func) == 'WalletKey.from_key'], key=lambda c: c.lineno)
                    if len(calls) != 2:
                        return False
                    c = calls[which]
                    if not any(k.arg == kw for k in c.keywords):
                        return False
                    c.keywords = [k for k in c.keywords if k.arg != kw]
                    return True
    return False


from . import c03 as _c03
PROP.obligation('C09.public-master-account', canaries=[
    mut.replace_expr('keys', 'HDKey.public_master_multisig', 'self.public_master(account_id, purpose, True, witness_type, as_private)', 'self.public_master(purpose=purpose, multisig=True, witness_type=witness_type, as_private=as_private)', 'cosigner keys of account N are the ones of account 0'),
])(_c03.public_master_account)
