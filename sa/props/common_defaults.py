"""Shared obligation: defaults of behaviour-defining parameters of the public API (a changed default silently changes what every
caller that relies on it gets; the existing tests mostly pass the arguments explicitly or do not care)."""
import ast

from ..core import norm


def defaults(ctx, table, why):
    """table: [(qualname, parameter, expected default source text)]"""
    n = 0
    for qual, param, exp in table:
        fn = ctx.repo.func(qual)
        a = fn.args
        names = [x.arg for x in a.posonlyargs + a.args]
        defs = [None] * (len(names) - len(a.defaults)) + list(a.defaults)
        pairs = dict(list(zip(names, defs)) + [(x.arg, d) for x, d in zip(a.kwonlyargs, a.kw_defaults)])
        if param not in pairs:
            ctx.unsure('%s: parameter %s vanished' % (qual, param))
            continue
        n += 1
        got = norm(pairs[param]) if pairs[param] is not None else '(required)'
        if got != exp:
            ctx.violate(qual, 'the default of parameter `%s` is %s, the documented / reference default is %s' % (param, got, exp), fn, why)
    ctx.saw('%d parameter defaults compared' % n)
    return n
