"""Shared obligation: every parameter a function accepts is read by its body.

A parameter that stays in the signature (and the documentation) but is no longer read silently replaces the caller's explicit choice
by whatever the body hard-codes: Value.to_hex(byteorder='big') answering little endian. On the reference tree this holds for every
function of the listed modules; placeholders that are unused by design are listed in EXCEPTIONS."""
import ast

EXCEPTIONS = {
    ('encoding', 'scrypt_hash', 'buflen'): 'kept for signature compatibility with the scrypt package',
}


def parameters_read(ctx, modules, why, floor):
    n = 0
    for mn in modules:
        m = ctx.repo.mod(mn)
        for q, f in sorted(m.functions.items()):
            ps = [a.arg for a in f.args.posonlyargs + f.args.args + f.args.kwonlyargs if a.arg not in ('self', 'cls') and not a.arg.startswith('_')]
            if f.args.vararg or f.args.kwarg:
                pass
            used = set(x.id for x in ast.walk(f) if isinstance(x, ast.Name) and isinstance(x.ctx, (ast.Load, ast.Del)))
            # a parameter that is only re-assigned before any read is as good as unread
            for p in ps:
                n += 1
                if p in used or (mn, q, p) in EXCEPTIONS:
                    continue
                ctx.violate('%s:%s' % (mn, q), 'parameter `%s` is accepted but never read' % p, f, why)
    ctx.saw('%d parameters of the functions of %s are read by their function' % (n, ', '.join(modules)))
    ctx.floor(n, floor, 'parameters')
