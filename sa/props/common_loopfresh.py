"""Shared obligation: a variable assigned only inside a loop body is assigned before it is read in every iteration (engine sa/loopfresh.py)."""
import ast
import os

from ..core import AnalysisError, VERIF_DIR, norm
from .. import loopfresh


def _selftest(ctx):
    tree = ast.parse(open(os.path.join(VERIF_DIR, 'fixtures', 'loopfresh_cases.py')).read())
    res = {f.name: bool(loopfresh.scan_function(f)) for f in tree.body if isinstance(f, ast.FunctionDef)}
    if res != {'bad': True, 'good': False, 'good_accumulator': False}:
        raise AnalysisError('LOOPFRESH fixtures classified %s' % res)
    ctx.saw('loop-freshness self-test on fixtures: %s' % res)


def loop_fresh(ctx, modules, why):
    _selftest(ctx)
    n = loops = 0
    for mn in modules:
        m = ctx.repo.mod(mn)
        for q, f in sorted(m.functions.items()):
            n += 1
            loops += sum(1 for x in ast.walk(f) if isinstance(x, (ast.For, ast.While)))
            for loop, v, rd in loopfresh.scan_function(f):
                ctx.violate('%s:%s' % (mn, q), 'inside the loop at line %d `%s` is read by `%s` on a path of the iteration that does not assign it: the value of an earlier iteration is used' % (
                    loop.lineno, v, norm(rd)[:70].split('\n')[0]), rd, why)
    ctx.saw('%d functions, %d loops of %s: every variable assigned only inside a loop is assigned before its reads in each iteration' % (n, loops, ', '.join(modules)))
