"""C16 Public views and default exports never contain private key material — containment taint over attributes."""
import ast

from ..core import Property, AnalysisError, unparse, norm, walk_no_nested, func_params
from ..sym import Interp, S, term, show, subterms, State
from ..layout import LAYOUT_HOOKS
from .. import intv, mut

PROP = Property(
    'C16', 'No private key material in public views, public copies, default exports or plaintext DB columns',
    'Static containment-taint analysis: the set of attributes of Key/HDKey/Signature/WalletKey that any method can fill with a '
    'representation of private key material is computed as a fixpoint over abstractly evaluated method bodies; public() '
    'must give each of them an untainted value on the returned object (so nothing survives in __dict__/pickle/deepcopy, '
    'whatever was called before); repr/str/as_dict/as_json/info/public-WIF views are evaluated with their default '
    'arguments (self-method calls inlined) and must not contain tainted attributes or private-returning calls; the '
    'dictionary export filters the encrypted columns; the encrypted column types must not pass plaintext through when a '
    'key or password is configured, and only encrypted columns receive private values. That the AES layer itself is sound '
    'is NOT decided.',
    ['copy.deepcopy copies exactly the attributes present', 'aes_encrypt (Cryptodome) is sound',
     'ORM back-references (WalletKey.wallet -> DbWallet.keys) are outside the attribute-level model'])

SELF = ('var', 'self')
SEEDS = {
    'keys:Key': {'secret', 'private_byte', 'private_hex'},
    'keys:HDKey': {'secret', 'private_byte', 'private_hex'},
    'keys:Signature': {'secret', 'k'},
    'wallets:WalletKey': {'key_private'},
    'db:DbKey': {'private', 'wif'},
}
# attributes of *other* objects that hold private material (key objects, DbKey rows)
FOREIGN = {'secret', 'private_byte', 'private_hex', '_wif', 'key_private', 'private', 'wif'}
FOREIGN_PUBLIC_BASES = ()  # none
DECLASS_CALLS = {'ec_point', 'hash160', 'double_sha256', 'len', 'isinstance', 'bool', 'network_by_value', 'get_key_format',
                 'check_network_and_key', 'Network', 'wif_prefix_search', 'type', 'ec_point_multiplication', 'print', 'hasattr'}
DECLASS_METHODS = {'public', 'public_point', 'address', 'address_obj', 'wif_public', 'is_point_on_curve', 'sign', 'verify', 'gen_nonce',
                   'get_public_key', 'query', 'filter', 'filter_by', 'first', 'all', 'scalar', 'commit', 'count', 'warning', 'info',
                   'debug', 'bit_length', 'startswith', 'endswith', 'wif_prefix', 'balance'}
PRIVATE_METHODS_ALWAYS = {'wif_private', 'wif_key', 'child_private', 'as_private'}
PRIVATE_PARAMS = {
    'keys:Key.__init__': ('import_key',), 'keys:HDKey.__init__': ('import_key', 'key'),
    'keys:Signature.__init__': ('secret', 'k'), 'keys:Signature.create': ('private', 'k'),
}


class Taint:
    def __init__(self, repo):
        self.repo = repo
        self.attrs = {c: set(s) for c, s in SEEDS.items()}
        self.props = {}        # cls -> names of properties that return private material (computed, not stored)
        self.methods = {}      # (cls, method) -> True when some return path contains private material with default-ish args
        self.not_analysed = []

    def cls_attrs(self, cls, stored_only=False):
        out = set()
        for c in self.repo.mro(cls):
            out |= self.attrs.get(c, set())
            if not stored_only:
                out |= self.props.get(c, set())
        return out

    def contains(self, t, cls, pc=None, pparams=(), depth=0):
        """does term t contain a representation of private key material?"""
        if not isinstance(t, tuple) or not t:
            return None
        op = t[0]
        if not isinstance(op, str):
            # plain tuple of terms (parts of a concatenation, argument lists)
            for x in t:
                r = self.contains(x, cls, pc, pparams, depth + 1)
                if r:
                    return r
            return None
        if op == 'attr':
            if t[1] == SELF or (isinstance(t[1], tuple) and t[1][0] == 'copy'):
                return t if t[2] in self.cls_attrs(cls) else None
            if t[2] in FOREIGN:
                return t
            # selecting another (public) attribute of an object narrows to that attribute
            return None
        if op == 'var':
            return t if t[1] in pparams else None
        if op in ('cmp', 'len', 'not', 'isinstance', 'hash', 'raise', 'exception'):
            return None
        if op == 'call':
            name = t[1]
            if name in DECLASS_CALLS or name.endswith('Error') or name in ('Warning',):
                return None
            for a in t[2]:
                r = self.contains(a, cls, pc, pparams, depth + 1)
                if r:
                    return r
            for k, v in t[3]:
                r = self.contains(v, cls, pc, pparams, depth + 1)
                if r:
                    return r
            return None
        if op == 'mcall':
            m = t[2]
            kw = dict(t[4])
            if m in ('first', 'one', 'all', 'scalar') and any(x == ('global', 'DbKey') for x in subterms(t[1])):
                return t          # a DbKey row object carries the private / wif columns
            if m in DECLASS_METHODS:
                return None
            if m in PRIVATE_METHODS_ALWAYS:
                return t
            if m == 'wif':
                isp = kw.get('is_private', t[3][0] if t[3] else None)
                recv_is_key = t[1] == ('call', 'super', (('global', 'Key'),) if False else t[1][2], ()) if isinstance(t[1], tuple) and t[1][:2] == ('call', 'super') else False
                if isp is True or recv_is_key:
                    return t
                if isp is None and not t[3] and 'is_private' not in kw:
                    # Key.wif() is always private, HDKey.wif() defaults to the public extended key
                    if t[1] == SELF and cls == 'keys:Key':
                        return t
                    return None
                if isp not in (None, False):
                    return t       # symbolic flag: may be private
                return None
            if m in ('as_hex', 'as_bytes'):
                flag = kw.get('private', t[3][0] if t[3] else False)
                return t if flag not in (False, None) else None
            if m in ('as_dict', 'as_json'):
                flag = kw.get('include_private', t[3][0] if t[3] else False)
                return t if flag not in (False, None) else None
            if m in ('key',):
                return t          # WalletKey.key() returns the HDKey object (private if the wallet key is)
            r = self.contains(t[1], cls, pc, pparams, depth + 1)
            if r:
                return r
            for a in t[3]:
                r = self.contains(a, cls, pc, pparams, depth + 1)
                if r:
                    return r
            for k, v in t[4]:
                r = self.contains(v, cls, pc, pparams, depth + 1)
                if r:
                    return r
            return None
        if op == 'cond':
            return self.contains(t[2], cls, pc, pparams, depth + 1) or self.contains(t[3], cls, pc, pparams, depth + 1)
        if op in ('repeat', 'repeat-if', 'after-loop'):
            return self.contains(t[-1] if op != 'repeat-if' else t[3], cls, pc, pparams, depth + 1)
        for x in t[1:]:
            if isinstance(x, tuple):
                r = self.contains(x, cls, pc, pparams, depth + 1)
                if r:
                    return r
        return None


def _h_deepcopy(interp, args, kwargs, st, node):
    if len(args) == 1:
        return S(('copy', term(args[0])))
    return NotImplemented


def _interp(repo, modname, cls, inline_self=False, decide=None, extra_hooks=None):
    hooks = dict(LAYOUT_HOOKS)
    hooks['deepcopy'] = _h_deepcopy
    hooks['copy'] = _h_deepcopy      # attribute-level analysis: a shallow copy starts with the same attribute values
    if extra_hooks:
        hooks.update(extra_hooks)
    it = Interp(repo, modname, hooks=hooks, self_cls=cls, decide=decide, max_depth=4)
    if inline_self:
        it.inline = _AllSelf()
    return it


class _AllSelf(set):
    """inline every self.method() of the analysed class (bounded by Interp.max_depth)"""
    def __contains__(self, x):
        return isinstance(x, str) and (x.startswith('self.') or '.' in x.split(':')[-1])


def _private_branch(st):
    """is the current path one on which the object is (known to be) private?"""
    isp = st.heap.get(('attr', SELF, 'is_private'))
    if isp is True:
        return True
    if isp is None or isp is False:
        return False
    return not intv.satisfiable(st.pc, [(term(isp), False)])


def compute_taint(ctx):
    repo = ctx.repo
    T = Taint(repo)
    changed = True
    rounds = 0
    analysed = 0
    while changed and rounds < 6:
        changed = False
        rounds += 1
        for cls in ('keys:Key', 'keys:HDKey', 'keys:Signature', 'wallets:WalletKey'):
            modname, _, cname = cls.partition(':')
            for mname, fn in sorted(repo.methods_of(cls).items()):
                q = '%s:%s.%s' % (modname, cname, mname)
                it = _interp(repo, modname, cls)
                found = []

                def on_store(tgt, v, st, node, _q=q, _cls=cls, _found=found):
                    if tgt[0] == 'attr' and (tgt[1] == SELF or (isinstance(tgt[1], tuple) and tgt[1][0] == 'copy')):
                        pp = PRIVATE_PARAMS.get(_q, ()) if _private_branch(st) or _q.startswith('keys:Signature') else ()
                        hit = T.contains(term(v), _cls, st.pc, pp)
                        if hit and tgt[2] not in T.cls_attrs(_cls):
                            _found.append((tgt[2], hit, node))
                it.obs_store = on_store
                args = {}
                for name, default in func_params(fn):
                    if name not in ('self', 'cls') and default is None:
                        args[name] = S(('var', name))
                for p in PRIVATE_PARAMS.get(q, ()):
                    args[p] = S(('var', p))
                try:
                    exits = it.run_function(fn, args)
                    analysed += 1 if rounds == 1 else 0
                except AnalysisError as e:
                    if rounds == 1:
                        T.not_analysed.append('%s (%s)' % (q, str(e)[:60]))
                    continue
                # a property that hands out private material is read like an attribute: `self.keys_private`
                if any(isinstance(d, ast.Name) and d.id == 'property' for d in fn.decorator_list) and mname not in T.cls_attrs(cls):
                    for e in exits:
                        if e.kind == 'return' and e.value is not None:
                            hit = T.contains(term(e.value), cls, e.pc, ())
                            if hit:
                                T.props.setdefault(cls, set()).add(mname)
                                changed = True
                                ctx.saw('%s is a property that returns private material (%s)' % (q, show(hit)[:50]))
                                break
                for attr, hit, node in found:
                    if attr not in T.attrs.setdefault(cls, set()):
                        T.attrs[cls].add(attr)
                        changed = True
                        ctx.saw('%s stores private material (%s) in self.%s' % (q, show(hit)[:50], attr))
    T.analysed = analysed
    return T


@PROP.obligation('C16.attrs')
def attrs(ctx):
    """Fixpoint: attributes of Key / HDKey / Signature / WalletKey that some method fills with a representation of private
    material (sources: secret, private_byte, private_hex, the import argument on private branches, DbKey.private / DbKey.wif,
    the signer's secret and nonce). The result must contain the caches known on the pinned tree."""
    T = compute_taint(ctx)
    for cls in sorted(T.attrs):
        ctx.saw('%s tainted attributes: %s' % (cls, sorted(T.cls_attrs(cls))))
    ctx.saw('methods analysed: %d, outside the modelled subset: %d %s' % (T.analysed, len(T.not_analysed), T.not_analysed[:6]))
    ctx.floor(T.analysed, 85, 'methods abstractly evaluated')
    want = {'keys:Key': {'secret', 'private_byte', 'private_hex', '_wif'}, 'keys:HDKey': {'secret', 'private_byte', 'private_hex', '_wif'},
            'wallets:WalletKey': {'key_private', 'wif', '_hdkey_object', '_dbkey'}, 'keys:Signature': {'secret', 'k'}}
    for cls, w in want.items():
        missing = w - T.cls_attrs(cls)
        if missing:
            ctx.undecided('taint fixpoint for %s no longer finds %s (analysis lost precision)' % (cls, sorted(missing)))


CLEAR_OK = (None, b'', '', False, 0)


@PROP.obligation('C16.public-clears', canaries=[
    mut.drop_stmt('keys', 'Key.public', 'key._wif = None', 'Key.public: _wif cache survives'),
    mut.drop_stmt('keys', 'HDKey.public', 'hdkey._wif = None', 'HDKey.public: _wif cache survives'),
    mut.drop_stmt('keys', 'HDKey.public', 'hdkey.private_byte = None', 'HDKey.public: private_byte survives'),
    mut.replace_stmt('keys', 'Key.wif', 'self._wif_prefix = versionbyte', 'self._wif_prefix = versionbyte\nself._last_wif = self._wif', 'new cache attribute _last_wif filled by wif()'),
    mut.drop_stmt('wallets', 'WalletKey.public', 'pub_key.key_private = None', 'WalletKey.public: key_private survives'),
    mut.drop_stmt('wallets', 'WalletKey.public', 'pub_key._dbkey = None', 'WalletKey.public: DbKey row (private, wif) survives'),
    mut.replace_expr('wallets', 'WalletKey.public', 'self.key().wif()', 'self.key().wif(is_private=True)', 'WalletKey.public: wif replaced by the private wif'),
])
def public_clears(ctx):
    """Key.public, HDKey.public, WalletKey.public give EVERY tainted attribute (C16.attrs) an untainted value on the returned
    object: None / empty, or the result of a declassifying call; accepted guard idiom `if self.<x>: self.<x> = <untainted>`."""
    T = compute_taint(ctx)
    repo = ctx.repo
    for cls, meth in (('keys:Key', 'public'), ('keys:HDKey', 'public'), ('wallets:WalletKey', 'public')):
        modname, _, cname = cls.partition(':')
        q = '%s:%s.%s' % (modname, cname, meth)
        fn = repo.func(q)
        it = _interp(repo, modname, cls)
        exits = it.run_function(fn, {})
        rets = [e for e in exits if e.kind == 'return']
        if len(rets) != 1:
            ctx.undecided('%s: %d return paths' % (q, len(rets)))
        e = rets[0]
        K = term(e.value)
        if not (K == SELF or (isinstance(K, tuple) and K[0] == 'copy' and K[1] == SELF)):
            ctx.undecided('%s returns %s, expected self or deepcopy(self)' % (q, show(K)[:60]))
        for a in sorted(T.cls_attrs(cls, stored_only=True)):
            key = ('attr', K, a)
            if key not in e.heap:
                ctx.saw('%s: %s NOT assigned' % (q, a))
                ctx.violate(q, 'tainted attribute %s is not cleared on the returned object' % a, fn,
                            'private material filled by an earlier call survives in __dict__ / pickle / deepcopy of the public view')
                continue
            v = e.heap[key]
            tv = term(v)
            ctx.saw('%s: %s := %s' % (q, a, show(tv)[:80]))
            ok = _untainted_or_guarded(T, cls, K, a, tv)
            if not ok:
                ctx.violate(q, 'tainted attribute %s is set to %s, which may still hold private material' % (a, show(tv)[:100]), fn)
    # the guard used for WalletKey.wif relies on key() being falsy only when wif is falsy (or a multisig key without children)
    q = 'wallets:WalletKey.key'
    fn = repo.func(q)
    src = ' '.join(norm(n) for n in walk_no_nested(fn) if isinstance(n, ast.If))
    ctx.saw('WalletKey.key conditions: %s' % src[:200])
    ok = any(isinstance(n, ast.If) and 'self.wif' in unparse(n.test) and any('from_wif(self.wif' in unparse(s) for s in n.body) for n in walk_no_nested(fn))
    if not ok:
        ctx.undecided('WalletKey.key() no longer builds the key from self.wif whenever self.wif is set; the guard idiom in WalletKey.public cannot be justified')


def _untainted_or_guarded(T, cls, K, a, tv):
    if tv in CLEAR_OK or not isinstance(tv, tuple):
        return True
    old = ('attr', K, a)
    old_self = ('attr', SELF, a)
    if tv[0] == 'cond':
        test, x, y = tv[1], tv[2], tv[3]
        # if <guard>: attr = <untainted>   (else: unchanged)
        guard_is_attr = test in (old, old_self)
        guard_is_key = a == 'wif' and test == ('mcall', SELF, 'key', (), ())
        if (guard_is_attr or guard_is_key) and y in (old, old_self) and not T.contains(x, cls):
            return True
        return _untainted_or_guarded(T, cls, K, a, x) and _untainted_or_guarded(T, cls, K, a, y)
    return not T.contains(tv, cls)


VIEWS = [
    ('keys:Key', '__repr__', {}), ('keys:Key', '__str__', {}), ('keys:Key', '__bytes__', {}), ('keys:Key', 'hex', {}),
    ('keys:Key', 'as_hex', {}), ('keys:Key', 'as_bytes', {}), ('keys:Key', 'as_dict', {}), ('keys:Key', 'as_json', {}),
    ('keys:HDKey', '__repr__', {}), ('keys:HDKey', 'as_dict', {}), ('keys:HDKey', 'as_json', {}), ('keys:HDKey', 'wif', {}),
    ('keys:HDKey', 'wif', {'is_private': False}), ('keys:HDKey', 'wif_public', {}),
    ('keys:HDKey', 'wif', {'is_private': False, 'prefix': b'\x04\x88\xb2\x1e'}), ('keys:HDKey', 'wif_public', {'prefix': b'\x04\x88\xb2\x1e'}),
    ('keys:HDKey', 'wif', {'prefix': '0488B21E'}),
    ('keys:Address', '__repr__', {}), ('keys:Address', 'as_dict', {}), ('keys:Address', 'as_json', {}),
    ('keys:Signature', '__repr__', {}), ('keys:Signature', '__str__', {}), ('keys:Signature', 'as_der_encoded', {}), ('keys:Signature', 'hex', {}),
    ('transactions:Input', '__repr__', {}), ('transactions:Input', 'as_dict', {}), ('transactions:Output', '__repr__', {}), ('transactions:Output', 'as_dict', {}),
    ('transactions:Transaction', '__repr__', {}), ('transactions:Transaction', 'as_dict', {}), ('transactions:Transaction', 'as_json', {}),
    ('wallets:WalletKey', '__repr__', {}), ('wallets:WalletKey', 'as_dict', {}),
    ('wallets:WalletTransaction', '__repr__', {}),
    ('wallets:Wallet', '__repr__', {}), ('wallets:Wallet', 'as_dict', {}), ('wallets:Wallet', 'as_json', {}),
    ('db:DbKey', '__repr__', {}), ('db:DbWallet', '__repr__', {}),
]


def _eval_view(ctx, T, cls, meth, args, decide=None):
    repo = ctx.repo
    modname, _, cname = cls.partition(':')
    q = repo.resolve_method(cls, meth)
    if q is None:
        raise AnalysisError('view %s.%s vanished' % (cls, meth))
    fn = repo.func(q)
    printed = []

    def h_print(interp, a, kw, st, node):
        for x in a:
            printed.append((term(x), node))
        return None
    it = _interp(repo, q.partition(':')[0], cls, inline_self=True, decide=decide, extra_hooks={'print': h_print})
    a2 = {}
    for name, default in func_params(fn):
        if name in ('self', 'cls'):
            continue
        if name in args:
            a2[name] = args[name]
    exits = it.run_function(fn, a2)
    out = [(term(e.value), e.node) for e in exits if e.kind == 'return' and e.value is not None] + printed
    return q, fn, out


@PROP.obligation('C16.views', canaries=[
    mut.replace_expr('keys', 'HDKey.wif', 'not is_private', 'not is_private and self.compressed', 'HDKey.wif: public branch keeps private bytes for uncompressed keys'),
    mut.replace_expr('keys', 'HDKey.__repr__', 'self.wif_public()', 'self.wif(is_private=True)', 'HDKey.__repr__ prints the private extended key'),
    mut.replace_stmt('keys', 'Key.as_dict', "key_dict['public_hex'] = self.public_hex", "key_dict['public_hex'] = self.public_hex\nkey_dict['private_hex'] = self.private_hex", 'Key.as_dict: private_hex outside the include_private guard'),
    mut.replace_expr('keys', 'Signature.__repr__', 'self.hex()', 'self.k', 'Signature.__repr__ prints the nonce'),
    mut.replace_expr('wallets', 'WalletKey.as_dict', "'' if not self.key_public else self.key_public.hex()", 'self.key_private.hex()', 'WalletKey.as_dict: key_private in the default dict'),
    mut.replace_stmt('keys', 'HDKey.as_dict', 'key_dict = super(HDKey, self).as_dict()', 'key_dict = super(HDKey, self).as_dict(include_private=True)', 'HDKey.as_dict: parent called with include_private=True'),
])
def views(ctx):
    """repr / str / as_dict / as_json / public-WIF views of Key, HDKey, Address, Signature, Input, Output, Transaction, WalletKey,
    WalletTransaction, Wallet, DbKey, evaluated with DEFAULT arguments (self-method calls inlined): what they return or print
    contains no tainted attribute and no private-returning call."""
    T = compute_taint(ctx)
    done = 0
    skipped = []
    for cls, meth, args in VIEWS:
        try:
            q, fn, outs = _eval_view(ctx, T, cls, meth, args)
        except AnalysisError as e:
            skipped.append('%s.%s (%s)' % (cls, meth, str(e)[:50]))
            continue
        done += 1
        bad = None
        for t, node in outs:
            hit = T.contains(t, cls)
            if hit:
                bad = (hit, node)
                break
        ctx.saw('%s(%s): %d values, %s' % (q, ','.join('%s=%r' % kv for kv in args.items()), len(outs), 'PRIVATE: ' + show(bad[0])[:60] if bad else 'clean'))
        if bad:
            ctx.violate(q, 'default view contains private material: %s' % show(bad[0])[:120], bad[1],
                        'public representation / default export leaks the private key')
    ctx.note('views outside the modelled subset (not decided): %s' % skipped)
    ctx.floor(done, 28, 'views evaluated')


@PROP.obligation('C16.info-guard', canaries=[
    mut.insert_before('keys', 'Key.info', "print('PUBLIC KEY')", "print(' Private Key (hex) %s' % self.private_hex)", 'Key.info prints private_hex outside the secret guard'),
])
def info_guard(ctx):
    """Key.info / HDKey.info (explicit dump methods): every private value printed is guarded by the existence of the secret,
    i.e. on an object whose tainted attributes were cleared (secret falsy, is_private falsy) nothing private is printed."""
    T = compute_taint(ctx)

    def cleared(t):
        if t in (('attr', SELF, 'secret'), ('attr', SELF, 'is_private'), ('attr', SELF, 'private_byte'), ('attr', SELF, 'private_hex')):
            return False
        return None
    for cls in ('keys:Key', 'keys:HDKey'):
        q, fn, outs = _eval_view(ctx, T, cls, 'info', {}, decide=cleared)
        bad = [(T.contains(t, cls), node) for t, node in outs if T.contains(t, cls)]
        ctx.saw('%s on a cleared object prints %d values, private: %d' % (q, len(outs), len(bad)))
        for hit, node in bad:
            ctx.violate(q, 'prints %s although the object holds no secret' % show(hit)[:100], node)
        if len(outs) < 8:
            ctx.undecided('%s: print calls not seen' % q)


@PROP.obligation('C16.dict-filter', canaries=[
    mut.replace_expr('wallets', 'Wallet.keys', "['private', 'wif']", "['private']", 'Wallet.keys(as_dict): wif column no longer filtered'),
    mut.replace_expr('wallets', 'Wallet.keys', 'include_private', 'is_private', 'Wallet.keys(as_dict): filter tied to the wrong flag'),
])
def dict_filter(ctx):
    """Wallet.keys(as_dict=True, include_private=False) removes a field list that contains every Encrypted* column of DbKey,
    under a guard on include_private only."""
    repo = ctx.repo
    enc = set()
    for st in repo.cls('db:DbKey').body:
        if isinstance(st, ast.Assign) and isinstance(st.value, ast.Call) and unparse(st.value.func) == 'Column' and st.value.args:
            ty = unparse(st.value.args[0])
            if ty.startswith('Encrypted'):
                enc.add(st.targets[0].id)
    ctx.saw('DbKey encrypted columns: %s' % sorted(enc))
    if enc != {'private', 'wif'}:
        ctx.undecided('DbKey encrypted columns are %s (expected private, wif)' % sorted(enc))
    q = 'wallets:Wallet.keys'
    fn = repo.func(q)
    for inc in (False,):
        it = Interp(repo, 'wallets', self_cls='wallets:Wallet')
        exits = it.run_function(fn, {'as_dict': True, 'include_private': inc, 'is_private': S(('var', 'is_private')), 'account_id': None, 'name': None,
                                     'key_id': None, 'change': None, 'depth': None, 'used': None, 'has_balance': None, 'is_active': None,
                                     'witness_type': None, 'network': None})
        rets = [e for e in exits if e.kind == 'return']
        if not rets:
            ctx.undecided('Wallet.keys(as_dict=True) has no return')
        for e in rets:
            rv = term(e.value)
            filt = set()
            for s in subterms(('w', rv)):
                if isinstance(s, tuple) and s[0] == 'cmp' and s[1] == 'not in' and isinstance(s[3], tuple) and s[3][0] in ('tuple', 'list'):
                    filt |= set(x for x in s[3][1:] if isinstance(x, str))
            ctx.saw('Wallet.keys(as_dict=True, include_private=%s): filtered fields %s' % (inc, sorted(filt)))
            missing = enc - filt
            if missing:
                ctx.violate(q, 'as_dict export with include_private=False does not remove column(s) %s' % sorted(missing), e.node,
                            'default dictionary export of a wallet contains private keys / private WIFs')


@PROP.obligation('C16.db-columns', canaries=[
    mut.replace_expr('db', 'EncryptedBinary.process_bind_param', 'DB_FIELD_ENCRYPTION_KEY or DB_FIELD_ENCRYPTION_PASSWORD', 'DB_FIELD_ENCRYPTION_KEY', 'EncryptedBinary: password mode writes plaintext'),
    mut.replace_stmt('db', 'EncryptedString.process_bind_param', 'return aes_encrypt(value, self.key)', 'return value', 'EncryptedString: never encrypts'),
    mut.replace_expr('db', 'DbKey', 'EncryptedBinary(48)', 'LargeBinary(48)', 'DbKey.private column is no longer an encrypted type'),
    mut.replace_expr('wallets', 'WalletKey.from_key', "name[:80]", "k.wif(is_private=True)", 'from_key stores the private wif in the plain name column'),
    mut.replace_stmt('db', '_get_encryption_key', 'key = bytes().fromhex(DB_FIELD_ENCRYPTION_KEY)', 'key = bytes().fromhex(DB_FIELD_ENCRYPTION_KEY)\nif len(key) != 32:\n    key = None', 'a configured key of another length switches encryption off'),
])
def db_columns(ctx):
    """DbKey.private / DbKey.wif are Encrypted* columns whose process_bind_param returns aes_encrypt(value, key) whenever a value
    and a key are present and DB_FIELD_ENCRYPTION_KEY or DB_FIELD_ENCRYPTION_PASSWORD is configured; _get_encryption_key yields a
    key in both modes; WalletKey.from_key / Wallet._new_key_multisig pass private values only to those two columns."""
    repo = ctx.repo
    cols = {}
    for st in repo.cls('db:DbKey').body:
        if isinstance(st, ast.Assign) and isinstance(st.value, ast.Call) and unparse(st.value.func) == 'Column' and st.value.args:
            cols[st.targets[0].id] = unparse(st.value.args[0])
    ctx.saw('DbKey.private: %s, DbKey.wif: %s' % (cols.get('private'), cols.get('wif')))
    ctx.require(str(cols.get('private', '')).startswith('EncryptedBinary'), 'db:DbKey', 'column private has type %s, expected EncryptedBinary' % cols.get('private'))
    ctx.require(str(cols.get('wif', '')).startswith('EncryptedString'), 'db:DbKey', 'column wif has type %s, expected EncryptedString' % cols.get('wif'))
    KEY, PW = ('global', 'DB_FIELD_ENCRYPTION_KEY'), ('global', 'DB_FIELD_ENCRYPTION_PASSWORD')
    for cname in ('EncryptedBinary', 'EncryptedString'):
        q = 'db:%s.process_bind_param' % cname
        fn = repo.func(q)
        it = Interp(repo, 'db', self_cls='db:' + cname)
        V = ('var', 'value')
        exits = it.run_function(fn, {'value': S(V), 'dialect': S(('var', 'dialect'))})
        for e in exits:
            if e.kind != 'return':
                continue
            rv = term(e.value)
            encrypted = isinstance(rv, tuple) and rv[0] == 'call' and rv[1] == 'aes_encrypt'
            ctx.saw('%s returns %s when %s' % (q, show(rv)[:40], ' & '.join(('' if p else 'not ') + show(t)[:60] for t, p in e.pc)[:160]))
            if encrypted:
                ok = rv[2][1] == ('attr', SELF, 'key') and any(x == V for x in subterms(('w', rv[2][0])))
                ctx.require(ok, q, 'encrypts %s with %s, expected the bound value with self.key' % (show(rv[2][0])[:40], show(rv[2][1])[:40]), e.node)
                continue
            for mode in (KEY, PW):
                other = PW if mode is KEY else KEY
                extra = [(mode, True), (other, False), (('cmp', 'is', V, None), False), (('cmp', 'is', ('attr', SELF, 'key'), None), False)]
                if intv.satisfiable(e.pc, extra):
                    ctx.violate(q, 'returns the value unencrypted although %s is configured' % mode[1], e.node,
                                'private keys / private WIFs are written to the database file in plaintext')
    q = 'db:_get_encryption_key'
    fn = repo.func(q)
    it = Interp(repo, 'db')
    exits = it.run_function(fn, {'default_impl': S(('var', 'default_impl'))})
    for mode in (KEY, PW):
        other = PW if mode is KEY else KEY
        for e in exits:
            if e.kind != 'return':
                continue
            rv = intv.specialise(term(e.value), {mode: 'configured', other: None})
            ctx.saw('_get_encryption_key with %s -> key %s' % (mode[1], show(rv[1])[:60]))
            ctx.require(rv[1] is not None, q, 'no key is derived when only %s is configured' % mode[1], fn)
            none_when = _none_alternatives(rv[1])
            if rv[1] is not None and none_when:
                ctx.violate(q, 'with %s configured the key is None when %s: the column types then store and return the values as they are' % (mode[1], show(none_when[0])[:100]), fn,
                            'field encryption that was asked for is silently switched off (fails open): private keys and WIFs are written to the database file in plaintext')
    # only the encrypted columns receive private values
    T = compute_taint(ctx)
    for q, cls in (('wallets:WalletKey.from_key', 'wallets:WalletKey'), ('wallets:Wallet._new_key_multisig', 'wallets:Wallet')):
        fn = repo.func(q)
        n = 0
        for call in [c for c in ast.walk(fn) if isinstance(c, ast.Call) and unparse(c.func) == 'DbKey']:
            n += 1
            it = Interp(repo, 'wallets')
            st = State(env={})
            for k in call.keywords:
                v = term(it.eval(k.value, st))
                v = _unglobal(v)
                if T.contains(v, 'wallets:WalletKey'):
                    ctx.saw('%s: DbKey(%s=%s)' % (q, k.arg, show(v)[:50]))
                    ctx.require(k.arg in ('private', 'wif'), q, 'private value %s is stored in plain column %s' % (show(v)[:60], k.arg), call,
                                'private material is readable in the database file even with field encryption on')
        if q.endswith('from_key'):
            ctx.floor(n, 2, 'DbKey(...) constructions in from_key')


def _none_alternatives(t):
    """tests under which a conditional term evaluates to None"""
    out = []
    if isinstance(t, tuple) and t and t[0] == 'cond':
        if t[2] is None:
            out.append(t[1])
        if t[3] is None:
            out.append(('not', t[1]))
        out += _none_alternatives(t[2]) + _none_alternatives(t[3])
    return out


def _unglobal(t):
    from ..sym import rewrite
    return rewrite(t, lambda x: ('var', x[1]) if isinstance(x, tuple) and len(x) == 2 and x[0] == 'global' else None)


@PROP.obligation('C16.public-path', canaries=[
    mut.replace_expr('keys', 'HDKey.subkey_for_path', 'first_public or not key.is_private', '(first_public and not hardened) or not key.is_private', 'hardened levels after M derived privately'),
    mut.replace_expr('keys', 'HDKey.subkey_for_path', 'first_public and key.is_private', 'False', 'bare path M hands back the private key'),
])
def public_path(ctx):
    """HDKey.subkey_for_path on a PRIVATE key with a path that starts with M (public derivation): evaluated for M/0, M/0/1, M/0' and
    M/44'/0'/0' - the result is produced by child_public at the first level and never by child_private, and a hardened level raises; no
    path that starts with M may hand back a key that was derived privately. The bare path M (the public master itself) gives the result of
    .public(), not the private key object."""
    q = 'keys:HDKey.subkey_for_path'
    fn = ctx.repo.func(q)

    def attr_hook(interp, base, name, st):
        t = term(base)
        if name == 'is_private':
            if t == ('var', 'self'):
                return True
            if isinstance(t, tuple) and t[0] == 'mcall':
                return t[2] == 'child_private'
        if name == 'key_type' and t == ('var', 'self'):
            return 'bip32'
        return NotImplemented
    for path, want in ((['M', '0'], 'public'), (['M', '0', '1'], 'public'), (['M', "0'"], 'raise'), (['M', "44'", "0'", "0'"], 'raise'), (['m', "0'", '1'], 'private'), (['M'], 'public')):
        it = Interp(ctx.repo, 'keys', self_cls='keys:HDKey', attr_hook=attr_hook)
        exits = it.run_function(fn, {'self': S(('var', 'self')), 'path': list(path), 'network': None})
        rets = [e for e in exits if e.kind == 'return']
        if not rets:
            got = 'raise'
        else:
            chain = [s_[2] for s_ in subterms(('w', term(rets[-1].value))) if isinstance(s_, tuple) and s_ and s_[0] == 'mcall' and s_[2] in ('child_public', 'child_private')]
            top = term(rets[-1].value)
            stripped = isinstance(top, tuple) and top and top[0] == 'mcall' and top[2] == 'public' and len(rets) == 1
            got = 'private' if 'child_private' in chain else ('public' if chain or stripped else 'self')
        ctx.saw("private key, path %s -> %s" % ('/'.join(path), got))
        if want in ('public', 'raise') and got in ('private', 'self'):
            ctx.violate(q, 'path %s on a private key returns %s' % ('/'.join(path), 'the private key object itself' if got == 'self' else 'a key derived with child_private'), fn,
                        "subkey_for_path(\"M/44'/0'/0'\"), the usual account-level xpub request, returns the unstripped private child key")
        elif got != want:
            ctx.violate(q, 'path %s on a private key gives %s, expected %s' % ('/'.join(path), got, want), fn)


@PROP.obligation('C16.wallet-wif', canaries=[
    mut.replace_expr('wallets', 'Wallet.wif', 'is_private and self.main_key', 'self.main_key and (is_private or self.main_key.depth == self.depth_public_master)', 'account-key wallets export main_key.wif for public requests'),
])
def wallet_wif(ctx):
    """Wallet.wif(is_private=False) - the default export - never returns self.main_key.wif (WalletKey.wif holds the private extended key of
    a private wallet): the branch that returns it is evaluated with is_private=False and everything else unknown and must be
    unreachable."""
    q = 'wallets:Wallet.wif'
    fn = ctx.repo.func(q)
    n = 0
    for iff in ast.walk(fn):
        if not isinstance(iff, ast.If):
            continue
        rets = [r for r in iff.body if isinstance(r, ast.Return) and r.value is not None and norm(r.value) in ('self.main_key.wif', 'self.main_key.key().wif_private()', 'self.main_key.key_private')]
        if not rets:
            continue
        n += 1
        it = _interp(ctx.repo, 'wallets', 'wallets:Wallet')
        st = State(env={'self': S(SELF), 'is_private': False})
        v = it.truth(it.eval(iff.test, st), st)
        ctx.saw('`return %s` under `%s`; with is_private=False the test is %s' % (norm(rets[0].value), norm(iff.test), v if isinstance(v, bool) else 'not decided False'))
        if v is not False:
            ctx.violate(q, 'with is_private=False the branch `%s` that returns %s can be taken' % (norm(iff.test), norm(rets[0].value)), iff,
                        'a wallet created from a private account key returns its xprv from wif() / wif(is_private=False)')
    if not n:
        ctx.unsure('%s: return of the main key wif not found' % q)


def _model_links(mod):
    """{class: {attribute: target class}} for relationship(...) attributes and their backrefs in db.py"""
    links = {}
    for cname, c in mod.classes.items():
        for s in c.body:
            if isinstance(s, ast.Assign) and isinstance(s.value, ast.Call) and norm(s.value.func) == 'relationship' and s.value.args and isinstance(s.value.args[0], ast.Constant):
                tgt = s.value.args[0].value
                for t in s.targets:
                    if isinstance(t, ast.Name):
                        links.setdefault(cname, {})[t.id] = tgt
                for k in s.value.keywords:
                    if k.arg == 'backref' and isinstance(k.value, ast.Constant):
                        links.setdefault(tgt, {})[k.value.value] = cname
    return links


@PROP.obligation('C16.model-reprs', canaries=[
    mut.insert_before('db', None, "key_order = Column(Integer, Sequence('key_multisig_children_id_seq'))", "def __repr__(self):\n    return '<DbKeyMultisigChildren(child_key=%s>' % self.child_key", 'association row prints the child key row (and its wif)'),
    mut.replace_expr('db', 'DbTransaction.__repr__', 'self.confirmations', 'self.wallet.keys', 'DbTransaction.__repr__ prints the key rows of its wallet'),
])
def model_reprs(ctx):
    """Every __repr__ / __str__ of the ORM models in db.py: the columns it prints are neither DbKey.private / DbKey.wif nor - through a
    relationship or backref attribute - a DbKey row or a list of them, whose own repr prints the wif column (the recorded finding D20):
    Wallet.keys(as_dict=True), as_dict() and as_json() copy the loaded relationships of a row and serialise unknown objects with str()."""
    mod = ctx.repo.mod('db')
    links = _model_links(mod)
    secret_cols = {'DbKey': {'private', 'wif'}}
    # models whose own repr prints secret columns
    leaky = set()
    reprs = []
    for cname in sorted(mod.classes):
        for meth in ('__repr__', '__str__'):
            f = mod.functions.get('%s.%s' % (cname, meth))
            if f is not None:
                reprs.append((cname, meth, f))
                used = set(a.attr for a in ast.walk(f) if isinstance(a, ast.Attribute) and isinstance(a.value, ast.Name) and a.value.id == 'self')
                if used & secret_cols.get(cname, set()):
                    leaky.add(cname)
    ctx.saw('models with a repr: %s; repr prints secret columns: %s' % (sorted(set(c for c, _, _ in reprs)), sorted(leaky)))
    if 'DbKey' not in leaky:
        leaky.add('DbKey')      # the row object itself carries private / wif: a default object repr is harmless, but keep the target marked
    n = 0
    for cname, meth, f in reprs:
        inner = set(id(x.value) for x in ast.walk(f) if isinstance(x, ast.Attribute))
        for a in ast.walk(f):
            if not (isinstance(a, ast.Attribute) and isinstance(a.ctx, ast.Load)) or id(a) in inner:
                continue
            chain = []
            b = a
            while isinstance(b, ast.Attribute):
                chain.append(b.attr)
                b = b.value
            if not (isinstance(b, ast.Name) and b.id == 'self'):
                continue
            chain.reverse()
            n += 1
            cur = cname
            for i, attr in enumerate(chain):
                if cur is None:
                    break
                nxt = links.get(cur, {}).get(attr)
                last = i == len(chain) - 1
                if nxt is None:
                    if attr in secret_cols.get(cur, set()) and cur != cname:
                        ctx.violate('db:%s.%s' % (cname, meth), 'prints self.%s, the %s column of a related %s row' % ('.'.join(chain), attr, cur), a, 'the representation of the row carries private key material')
                    cur = None
                elif last and nxt in leaky:
                    ctx.violate('db:%s.%s' % (cname, meth), 'prints self.%s, a %s row (relationship): the repr of that row prints its wif column - the extended PRIVATE key of an owned cosigner' % ('.'.join(chain), nxt), a,
                                'once the relationship is loaded, Wallet.keys(as_dict=True) / as_json() of a multisig wallet contain the private key of the owned cosigner as text')
                    cur = None
                else:
                    cur = nxt
    ctx.saw('%d attribute reads in %d model reprs checked against the relationship graph (%d relationship attributes)' % (n, len(reprs), sum(len(v) for v in links.values())))
    ctx.floor(len(reprs), 4, 'model reprs')
    ctx.floor(sum(len(v) for v in links.values()), 15, 'relationship attributes')


def _parent_use(fn, node):
    for p in ast.walk(fn):
        for c in ast.iter_child_nodes(p):
            if c is node:
                return p
    return None


@PROP.obligation('C16.shared-constants')
def shared_constants(ctx):
    """The filters that keep private fields out of the dictionary / JSON views are not changed by a call: no function of wallets.py,
    keys.py, transactions.py or db.py mutates a module-level set / list / dict in place, directly or through a local alias
    (`skip = SKIP_FIELDS; skip -= {...}` removes the entries for every later call of the process)."""
    from .common_alias import shared_constants as run
    run(ctx, ['wallets', 'keys', 'transactions', 'db'],
        'after one legitimate include_private=True export every later default export (keys(as_dict=True), as_dict(), as_json()) contains the private key bytes and the xprv of every key')


@PROP.obligation('C16.signature-key-public', canaries=[
    mut.replace_stmt('keys', 'Signature.public_key.setter', 'if value.is_private:', 'if isinstance(value, Key) and value.is_private and False:\n    value = value.public()', 'private keys are stored on the signature as they come') if False else
    mut.Canary('private test only on one branch of the setter', 'keys', lambda tree: _elif_private(tree)),
])
def signature_key_public(ctx):
    """Signature.public_key (setter): whatever form the key arrives in - object, bytes, hex, WIF - the object stored in _public_key has gone
    through the `is_private` test that replaces a private key by its public() copy: on the control-flow graph every path from the entry to
    the store passes that test. A key BUILT inside the setter from raw private input must not bypass it."""
    from ..cfg import build_cfg
    cls = ctx.repo.cls('keys:Signature')
    fn = None
    for s_ in cls.body:
        if isinstance(s_, ast.FunctionDef) and s_.name == 'public_key' and any(isinstance(d, ast.Attribute) and d.attr == 'setter' for d in s_.decorator_list):
            fn = s_
    if fn is None:
        ctx.undecided('Signature.public_key setter not found')
    q = 'keys:Signature.public_key'
    g = build_cfg(fn)
    stores = [n.id for n in g.nodes if n.kind == 'stmt' and isinstance(n.ast, ast.Assign) and norm(n.ast.targets[0]) == 'self._public_key']
    tests = [n.id for n in g.nodes if n.kind == 'test' and n.ast is not None and 'is_private' in norm(n.ast)]
    if not stores:
        ctx.undecided('Signature.public_key setter: store of _public_key not found')
    ctx.saw('setter: %d store(s) of _public_key, %d is_private test(s)' % (len(stores), len(tests)))
    if not tests:
        ctx.violate(q, 'the key is stored without an is_private test', fn, 'a Signature created with a private key keeps it: public_key.wif(is_private=True), pickle and deepcopy of the signature contain the private key')
        return
    for st_ in stores:
        p = g.path_avoiding([st_], tests, skip_exc=True)
        if p is not None:
            ctx.violate(q, 'there is a path to `self._public_key = value` that does not pass the is_private test (%s)' % g.describe_path(p)[:80], g[st_].ast,
                        'a private key given as raw bytes / hex / WIF is converted to a key object inside the setter and stored as it is: Signature.public_key then has is_private True, secret and private_hex set')
    # and the test leads to public()
    pub = [n for n in ast.walk(fn) if isinstance(n, ast.If) and 'is_private' in norm(n.test) and any(isinstance(x, ast.Assign) and norm(x.value).endswith('.public()') for x in n.body)]
    ctx.require(bool(pub), q, 'the is_private test does not replace the key by its public() copy', fn)


def _elif_private(tree):
    for c in ast.walk(tree):
        if isinstance(c, ast.ClassDef) and c.name == 'Signature':
            for f in c.body:
                if isinstance(f, ast.FunctionDef) and f.name == 'public_key' and any(isinstance(d, ast.Attribute) and d.attr == 'setter' for d in f.decorator_list):
                    for i, s_ in enumerate(f.body):
                        if isinstance(s_, ast.If) and 'isinstance(value, bytes)' in ast.unparse(s_.test) and i + 1 < len(f.body) and isinstance(f.body[i + 1], ast.If):
                            s_.orelse = [f.body[i + 1]]
                            del f.body[i + 1]
                            return True
    return False


@PROP.obligation('C16.public-master', canaries=[
    mut.replace_stmt('keys', 'HDKey.public_master', 'path_template, purpose, _ = get_key_structure_data', "if self.key_type == 'single':\n    return self\npath_template, purpose, _ = get_key_structure_data(self.witness_type, self.multisig, purpose)", 'single keys are their own public master'),
    mut.replace_expr('keys', 'HDKey.public_master', 'self.subkey_for_path(path).public()', 'self.subkey_for_path(path)', 'public master not stripped'),
])
def public_master(ctx):
    """HDKey.public_master / public_master_multisig with the default as_private=False - what a cosigner hands to the other cosigners,
    what Wallet exports as the watch-only key - is evaluated for a PRIVATE key of key type bip32 and of key type single (the single-key
    cosigners of multisig wallets) with every combination of multisig / witness_type arguments: each way out is an exception or the
    result of .public() - never self or a derived key that still carries the secret."""
    n = 0
    for meth in ('public_master', 'public_master_multisig'):
        q = ctx.repo.resolve_method('keys:HDKey', meth)
        if q is None:
            ctx.undecided('HDKey.%s vanished' % meth)
        fn = ctx.repo.func(q)
        for ktype in ('bip32', 'single'):
            for ms, wt in ((False, None), (True, None), (False, 'segwit'), (True, 'p2sh-segwit')):
                def attr_hook(interp, base, name, st, ktype=ktype):
                    if term(base) == SELF:
                        if name == 'is_private':
                            return True
                        if name == 'key_type':
                            return ktype
                    return NotImplemented
                hooks = {'get_key_structure_data': lambda it, a, kw, st, node: (["m", "purpose'", "coin_type'", "account'", 'change', 'address_index'], 44, 'base58'),
                         'path_expand': lambda it, a, kw, st, node: S(('var', 'path'), 'list')}
                it = Interp(ctx.repo, 'keys', hooks=hooks, self_cls='keys:HDKey', attr_hook=attr_hook, inline=['self.public_master'])
                args = {'self': S(SELF), 'account_id': 0, 'purpose': None, 'witness_type': wt, 'as_private': False}
                if meth == 'public_master':
                    args['multisig'] = ms
                try:
                    exits = it.run_function(fn, args)
                except AnalysisError as e:
                    ctx.undecided('HDKey.%s on a private %s key not evaluable: %s' % (meth, ktype, str(e)[:100]))
                n += 1
                for e in exits:
                    if e.kind != 'return':
                        continue
                    v = term(e.value)
                    ok = isinstance(v, tuple) and v and v[0] == 'mcall' and v[2] == 'public'
                    if not ok:
                        ctx.violate(q, 'on a private key of type %s, %s(multisig=%s, witness_type=%r) returns `%s`, which is not the result of .public()' % (ktype, meth, ms, wt, show(v)[:60]), e.node or fn,
                                    'the "public master" handed to cosigners / exported for a watch-only wallet is the unstripped private key object')
                ctx.saw('%s, private %s key, multisig=%s, witness_type=%s -> %s' % (meth, ktype, ms, wt, sorted(set('%s %s' % (e.kind, show(term(e.value))[:40]) for e in exits))))
    ctx.floor(n, 16, 'public-master scenarios')


@PROP.obligation('C16.public-stays-public', canaries=[
    mut.Canary('renaming a public copy re-attaches the database row', 'wallets', lambda tree: _mut_reattach(tree)),
])
def public_stays_public(ctx):
    """WalletKey.public() hands out a copy whose private-bearing attributes are cleared (`_dbkey = None`, `key_private = None`). Apart from
    the constructor, no method of WalletKey assigns one of those attributes from a database row (a DbKey row carries the private bytes
    and the private WIF): a setter that "repairs" a missing row would put the private key back into the object that was handed out as
    public, where vars() / copy / pickle find it."""
    m = ctx.repo.mod('wallets')
    cls = m.classes.get('WalletKey')
    if cls is None:
        ctx.undecided('class WalletKey vanished')
    pub = [f for f in cls.body if isinstance(f, ast.FunctionDef) and f.name == 'public']
    if len(pub) != 1:
        ctx.undecided('WalletKey.public not found')
    cleared = set()
    for a in ast.walk(pub[0]):
        if isinstance(a, ast.Assign) and isinstance(a.value, ast.Constant) and a.value.value in (None, '', b'', False):
            for t in a.targets:
                if isinstance(t, ast.Attribute) and isinstance(t.value, ast.Name) and t.value.id != 'self':
                    cleared.add(t.attr)
    ctx.saw('attributes WalletKey.public() clears on the copy: %s' % sorted(cleared))
    ctx.floor(len(cleared), 2, 'cleared attributes')
    n = 0
    for f in cls.body:
        if not isinstance(f, ast.FunctionDef) or f.name in ('__init__', 'public'):
            continue
        for a in ast.walk(f):
            if not isinstance(a, ast.Assign):
                continue
            for t in a.targets:
                if isinstance(t, ast.Attribute) and isinstance(t.value, ast.Name) and t.value.id == 'self' and t.attr in cleared:
                    n += 1
                    from_db = any(isinstance(c, ast.Call) and isinstance(c.func, ast.Attribute) and c.func.attr == 'query' and c.args and 'DbKey' in norm(c.args[0]) for c in ast.walk(a.value))
                    ctx.saw('WalletKey.%s assigns self.%s = %s' % (f.name, t.attr, norm(a.value)[:60]))
                    if from_db:
                        ctx.violate('wallets:WalletKey.%s' % f.name, 'self.%s, which public() clears, is filled again from a database row (`%s`)' % (t.attr, norm(a.value)[:70]), a,
                                    'pm = wallet.public_master(); pm.name = "x" leaves the DbKey row with its private bytes and xprv in vars(pm) and in every copy of the public key object')
    ctx.saw('%d assignments to cleared attributes outside the constructor' % n)


def _mut_reattach(tree):
    for cls in tree.body:
        if isinstance(cls, ast.ClassDef) and cls.name == 'WalletKey':
            for f in cls.body:
                if isinstance(f, ast.FunctionDef) and f.name == 'name' and any(isinstance(d, ast.Attribute) and d.attr == 'setter' for d in f.decorator_list):
                    new = ast.parse("if self._dbkey is None:\n    self._dbkey = self.session.query(DbKey).filter_by(id=self.key_id).first()").body
                    f.body = f.body[:1] + new + f.body[1:]
                    return True
    return False


_PRIVATE_NAMES = {'wif', 'key_private', 'private', 'private_byte', 'private_hex', 'secret', '_wif', 'k'}


@PROP.obligation('C16.wallet-info-prints', canaries=[
    mut.replace_expr('wallets', 'Wallet.info', 'cs.wif(is_private=False)', "(cs.main_key.wif if cs.scheme == 'single' else cs.wif(is_private=False))", 'the cosigner table prints the stored key of single-type cosigners'),
    mut.replace_expr('wallets', 'Wallet.info', 'cs.wif(is_private=False)', 'cs.wif(is_private=True)', 'the cosigner table prints private master keys'),
])
def wallet_info_prints(ctx):
    """Wallet.info() is the printed form of a wallet. Every value it prints is inspected syntactically (the method is too large for the
    evaluator): no print argument reads an attribute that the taint analysis marks private on WalletKey / HDKey / Key objects (wif,
    key_private, private_byte, private_hex, secret ... - WalletKey.wif is the STORED key, an extended private key for keys the wallet
    owns) and every .wif(...) call in a print argument says is_private=False. Keys are shown through wif(is_private=False) /
    wif_public() / address only."""
    T = compute_taint(ctx)
    tainted = set(_PRIVATE_NAMES)
    for cls in ('wallets:WalletKey', 'keys:HDKey', 'keys:Key'):
        tainted |= set(T.attrs.get(cls, ())) | set(T.props.get(cls, ()))
    tainted -= {'is_private'}
    q = 'wallets:Wallet.info'
    fn = ctx.repo.func(q)
    locals_ = {}
    for a in ast.walk(fn):
        if isinstance(a, ast.Assign) and len(a.targets) == 1 and isinstance(a.targets[0], ast.Name):
            locals_.setdefault(a.targets[0].id, []).append(a.value)
    n = 0

    def private_reads(e, depth=0):
        out = []
        for x in ast.walk(e):
            if isinstance(x, ast.Attribute) and isinstance(x.ctx, ast.Load) and x.attr in tainted:
                par_call = any(isinstance(c, ast.Call) and c.func is x for c in ast.walk(e))
                if not par_call:
                    out.append('reads `%s`' % norm(x))
            if isinstance(x, ast.Call) and isinstance(x.func, ast.Attribute) and x.func.attr in ('wif', 'wif_key'):
                ip = next((k.value for k in x.keywords if k.arg == 'is_private'), x.args[0] if x.args else None)
                if not (isinstance(ip, ast.Constant) and ip.value is False):
                    out.append('calls `%s` without is_private=False' % norm(x)[:50])
            if isinstance(x, ast.Call) and isinstance(x.func, ast.Attribute) and x.func.attr in ('wif_private', 'as_hex', 'as_bytes') and \
                    (x.func.attr == 'wif_private' or any(k.arg == 'private' and not (isinstance(k.value, ast.Constant) and k.value.value is False) for k in x.keywords)):
                out.append('calls `%s`' % norm(x)[:50])
            if isinstance(x, ast.Name) and x.id in locals_ and depth < 2:
                for v in locals_[x.id]:
                    out += private_reads(v, depth + 1)
        return out
    for c in ast.walk(fn):
        if isinstance(c, ast.Call) and norm(c.func) == 'print':
            n += 1
            for a in c.args:
                for why in private_reads(a):
                    ctx.violate(q, 'Wallet.info() prints a value that %s' % why, c,
                                'for a multisig wallet with a private cosigner key of type single, info() prints the extended PRIVATE key (Zprv...) in the table of "public master keys"')
    ctx.saw('%d print calls of Wallet.info inspected; private attribute names: %s' % (n, sorted(tainted)))
    ctx.floor(n, 20, 'print calls')


@PROP.obligation('C16.wallet-cache-keys')
def wallet_cache_keys(ctx):
    """Wallet.public_master(as_private=False) and its siblings decide between a private and a public object by an argument. Every container a
    method of Wallet / WalletKey both looks up and stores into is looked up with a key that carries every parameter the cached value
    depends on - a memo of public_master keyed without `as_private` hands the unstripped private WalletKey to the caller who asked for
    the public one (none exists on the reference tree; the fixture self-test keeps the detector honest)."""
    from .common_cache import cache_keys as run
    run(ctx, [('wallets', lambda q: q.startswith('Wallet.') or q.startswith('WalletKey.') or q.startswith('WalletTransaction.'))], 'wallet methods')
