"""
FTYPE: representation agreement between the writers of one attribute.

A light type inference classifies the value of every `X.attr = expr` (X = self or a local object) as bytes, str, int, bool, list, dict or
unknown from the shape of expr (.hex() -> str, bytes.fromhex / to_bytes / .to_bytes / b'' / [::-1] of bytes -> bytes, int(...) / len /
int.from_bytes -> int, literals, parameters with literal defaults, another attribute whose class is already known).  All writers of the
same attribute of the same class must agree; a writer of another representation (hex text stored where every other writer stores bytes)
is reported.
"""
import ast

from .core import norm

BYTES_CALLS = {'to_bytes', 'fromhex', 'double_sha256', 'hash160', 'sha256', 'varstr', 'int_to_varbyteint', 'raw', 'serialize', 'as_bytes', 'digest', 'encode', 'as_der_encoded', 'bytes', 'urandom', 'ripemd160'}
STR_CALLS = {'hex', 'to_hexstring', 'raw_hex', 'as_hex', 'str', 'decode', 'format', 'join', 'lower', 'upper', 'strip', 'change_base_str'}
INT_CALLS = {'int', 'len', 'from_bytes', 'round', 'sum', 'abs', 'value_to_satoshi', 'varbyteint_to_int', 'read_varbyteint', 'count', 'index'}


def infer(e, env=None):
    env = env or {}
    if isinstance(e, ast.Constant):
        v = e.value
        if v is None:
            return 'none'
        return {bytes: 'bytes', str: 'str', bool: 'bool', int: 'int', float: 'float'}.get(type(v), 'unknown')
    if isinstance(e, ast.JoinedStr):
        return 'str'
    if isinstance(e, (ast.List, ast.ListComp)):
        return 'list'
    if isinstance(e, (ast.Dict, ast.DictComp)):
        return 'dict'
    if isinstance(e, ast.Name):
        return env.get(e.id, 'unknown')
    if isinstance(e, ast.IfExp):
        a, b = infer(e.body, env), infer(e.orelse, env)
        if a == b:
            return a
        if 'none' in (a, b) or 'unknown' in (a, b):
            return a if b in ('none', 'unknown') else b
        return 'unknown'
    if isinstance(e, ast.BoolOp):
        ts = set(infer(v, env) for v in e.values) - {'none', 'unknown'}
        return ts.pop() if len(ts) == 1 else 'unknown'
    if isinstance(e, ast.Subscript):
        base = infer(e.value, env)
        if isinstance(e.slice, ast.Slice) and base in ('bytes', 'str', 'list'):
            return base
        return 'unknown'
    if isinstance(e, ast.BinOp):
        a, b = infer(e.left, env), infer(e.right, env)
        if isinstance(e.op, ast.Mod) and a == 'str':
            return 'str'
        if a == b and a in ('bytes', 'str', 'int', 'list'):
            return a
        if {a, b} <= {'int', 'float', 'bool'} and 'float' in (a, b):
            return 'float'
        return 'unknown'
    if isinstance(e, ast.Compare) or (isinstance(e, ast.UnaryOp) and isinstance(e.op, ast.Not)):
        return 'bool'
    if isinstance(e, ast.Call):
        f = e.func
        name = f.attr if isinstance(f, ast.Attribute) else (f.id if isinstance(f, ast.Name) else None)
        if name == 'to_bytes' and isinstance(f, ast.Attribute):
            return 'bytes'
        if name in BYTES_CALLS:
            return 'bytes'
        if name in STR_CALLS:
            return 'str'
        if name in INT_CALLS:
            return 'int'
        return 'unknown'
    return 'unknown'


def param_env(fn):
    """types of simple locals that are assigned values of ONE known representation (parameters are not typed: their defaults are often
    placeholders of another type)"""
    seen = {}
    for s in ast.walk(fn):
        if isinstance(s, ast.Assign) and len(s.targets) == 1 and isinstance(s.targets[0], ast.Name):
            seen.setdefault(s.targets[0].id, set()).add(infer(s.value, {}))
        elif isinstance(s, (ast.AugAssign, ast.For, ast.With)):
            for x in ast.walk(s.target if hasattr(s, 'target') else s):
                if isinstance(x, ast.Name) and isinstance(x.ctx, ast.Store):
                    seen.setdefault(x.id, set()).add('unknown')
    a = fn.args
    params = set(x.arg for x in a.posonlyargs + a.args + a.kwonlyargs)
    return {k: next(iter(v)) for k, v in seen.items() if len(v) == 1 and next(iter(v)) not in ('none', 'unknown') and k not in params}


def writers(minfo, class_of_var):
    """{(class, attr): [(type, qualname, node)]} for `self.attr = e` in methods and `<var>.attr = e` for variables with a known class"""
    out = {}
    for q, fn in minfo.functions.items():
        cls = q.split('.')[0] if '.' in q else None
        env = param_env(fn)
        for s in ast.walk(fn):
            if not (isinstance(s, ast.Assign) and len(s.targets) == 1 and isinstance(s.targets[0], ast.Attribute) and isinstance(s.targets[0].value, ast.Name)):
                continue
            base = s.targets[0].value.id
            owner = cls if base == 'self' else class_of_var.get((q, base)) or class_of_var.get(base)
            if not owner:
                continue
            out.setdefault((owner, s.targets[0].attr), []).append((infer(s.value, env), '%s:%s' % (minfo.name, q), s))
    return out
