"""
DFA: reaching definitions over the CFG and expression provenance ("which leaves can this value be built
from"), plus a small helper to enumerate guards (tests) that dominate a node.
"""
import ast

from .cfg import build_cfg, node_asts
from .core import walk_no_nested, unparse


class Def:
    __slots__ = ('name', 'node_id', 'value', 'kind', 'ast')

    def __init__(self, name, node_id, value, kind, astnode=None):
        self.name, self.node_id, self.value, self.kind, self.ast = name, node_id, value, kind, astnode

    def __repr__(self):
        return '<def %s@%s %s>' % (self.name, self.node_id, self.kind)


def _target_names(t):
    if isinstance(t, ast.Name):
        return [t.id]
    if isinstance(t, (ast.Tuple, ast.List)):
        out = []
        for e in t.elts:
            out += _target_names(e)
        return out
    if isinstance(t, ast.Starred):
        return _target_names(t.value)
    return []


def _self_attr(t):
    return isinstance(t, ast.Attribute) and isinstance(t.value, ast.Name) and t.value.id == 'self'


def defs_of_node(n, track_self=False):
    """definitions of simple local names made by CFG node n: list of (name, value_expr|None, kind);
    with track_self also `self.attr = value` as the pseudo-variable 'self.attr'"""
    out = []
    a = n.ast
    if a is None:
        return out
    if n.kind == 'for':
        for nm in _target_names(a.target):
            out.append((nm, a.iter, 'for'))
        return out
    if n.kind == 'handler':
        if a.name:
            out.append((a.name, None, 'except'))
        return out
    if n.kind in ('stmt', 'return', 'raise', 'test'):
        if isinstance(a, ast.Assign):
            for t in a.targets:
                if isinstance(t, ast.Name):
                    out.append((t.id, a.value, 'assign'))
                elif track_self and _self_attr(t):
                    out.append(('self.' + t.attr, a.value, 'assign'))
                else:
                    for nm in _target_names(t):
                        out.append((nm, a.value, 'unpack'))
        elif isinstance(a, ast.AnnAssign) and a.value is not None:
            for nm in _target_names(a.target):
                out.append((nm, a.value, 'assign'))
        elif isinstance(a, ast.AugAssign):
            for nm in _target_names(a.target):
                out.append((nm, a, 'aug'))
            if track_self and _self_attr(a.target):
                out.append(('self.' + a.target.attr, a, 'aug'))
        elif isinstance(a, (ast.With, ast.AsyncWith)):
            for it in a.items:
                if it.optional_vars is not None:
                    for nm in _target_names(it.optional_vars):
                        out.append((nm, it.context_expr, 'with'))
        elif isinstance(a, (ast.FunctionDef, ast.ClassDef)):
            out.append((a.name, None, 'def'))
        elif isinstance(a, (ast.Import, ast.ImportFrom)):
            for al in a.names:
                out.append(((al.asname or al.name).split('.')[0], None, 'import'))
        for frag in node_asts(n):
            for sub in ast.walk(frag):
                if isinstance(sub, ast.NamedExpr) and isinstance(sub.target, ast.Name):
                    out.append((sub.target.id, sub.value, 'assign'))
    return out


class ReachingDefs:
    def __init__(self, fn, cfg=None, track_self=False):
        self.fn = fn
        self.track_self = track_self
        self.cfg = cfg or build_cfg(fn)
        g = self.cfg
        self.defs = []            # all Def objects
        self.node_defs = {}       # node id -> [Def]
        a = fn.args
        self.params = [x.arg for x in a.posonlyargs + a.args + a.kwonlyargs] + \
                      ([a.vararg.arg] if a.vararg else []) + ([a.kwarg.arg] if a.kwarg else [])
        self.param_defs = [Def(p, -1, None, 'param') for p in self.params]
        self.defs += self.param_defs
        for n in g.nodes:
            ds = [Def(nm, n.id, val, kind, n.ast) for (nm, val, kind) in defs_of_node(n, track_self)]
            self.node_defs[n.id] = ds
            self.defs += ds
        # iterate
        self.IN = {n.id: set() for n in g.nodes}
        self.OUT = {n.id: set() for n in g.nodes}
        entry_in = set(self.param_defs)
        work = [n.id for n in g.nodes]
        self.IN[g.entry] = set(entry_in)
        changed = True
        while changed:
            changed = False
            for n in g.nodes:
                inn = set(entry_in) if n.id == g.entry else set()
                for (p, lab) in n.pred:
                    inn |= self.OUT[p]
                ds = self.node_defs[n.id]
                killed = set(d.name for d in ds if d.kind != 'aug')
                out = set(d for d in inn if d.name not in killed) | set(ds)
                # aug-assign keeps earlier defs reaching *into* it but the new def replaces them afterwards
                augk = set(d.name for d in ds if d.kind == 'aug')
                out = set(d for d in out if not (d.name in augk and d not in ds))
                if inn != self.IN[n.id] or out != self.OUT[n.id]:
                    self.IN[n.id], self.OUT[n.id] = inn, out
                    changed = True

    def reaching(self, node_id, name):
        return [d for d in self.IN[node_id] if d.name == name]

    def node_of_ast(self, astnode):
        """CFG node id whose owned fragment contains astnode"""
        for n in self.cfg.nodes:
            for frag in node_asts(n):
                for sub in ast.walk(frag):
                    if sub is astnode:
                        return n.id
        return None

    def leaves(self, expr, node_id, depth=6, _seen=None):
        """provenance of an expression evaluated at node_id: set of leaf descriptions
        ('param', name) / ('const', v) / ('call', text) / ('attr', text) / ('name', free name) /
        ('for', iter text) ..., following local definitions transitively."""
        _seen = _seen if _seen is not None else set()
        out = set()
        for sub in _expr_leaves(expr):
            if isinstance(sub, ast.Name):
                ds = self.reaching(node_id, sub.id)
                if not ds:
                    out.add(('name', sub.id))
                for d in ds:
                    if d.kind == 'param':
                        out.add(('param', d.name))
                    elif (d, node_id) in _seen or depth <= 0:
                        out.add(('cut', d.name))
                    elif d.value is None:
                        out.add((d.kind, d.name))
                    else:
                        _seen.add((d, node_id))
                        val = d.value.value if d.kind == 'aug' else d.value
                        out |= self.leaves(val, d.node_id, depth - 1, _seen)
                        if d.kind == 'aug':
                            out |= self.leaves(d.value.target, d.node_id, depth - 1, _seen)
                        if self.control:
                            out |= self._control_leaves(d.node_id, depth - 1, _seen)
                        if d.kind == 'for':
                            out.add(('for', unparse(d.value)))
            elif isinstance(sub, ast.Constant):
                out.add(('const', sub.value))
            elif isinstance(sub, ast.Call):
                out.add(('call', unparse(sub.func)))
            elif isinstance(sub, ast.Attribute):
                ds = self.reaching(node_id, unparse(sub)) if (self.track_self and _self_attr(sub)) else []
                if not ds:
                    out.add(('attr', unparse(sub)))
                for d in ds:
                    if (d, node_id) in _seen or depth <= 0:
                        out.add(('cut', d.name))
                        continue
                    _seen.add((d, node_id))
                    val = d.value.value if d.kind == 'aug' else d.value
                    out |= self.leaves(val, d.node_id, depth - 1, _seen)
                    if d.kind == 'aug':
                        out.add(('attr', d.name))
                    if self.control:
                        out |= self._control_leaves(d.node_id, depth - 1, _seen)
        return out

    control = False

    def _control_leaves(self, node_id, depth, _seen):
        """leaves of the tests that decide whether node_id executes"""
        out = set()
        for t, pol in guards_of(self.cfg, node_id):
            tn = self.cfg[t]
            if tn.ast is not None and (('guard', t) not in _seen):
                _seen.add(('guard', t))
                out |= self.leaves(tn.ast, t, depth, _seen)
        return out


def _expr_leaves(expr):
    """leaves of an expression: Names, Constants, Calls (not descended into their func but into args),
    Attributes (whole dotted chain, not descended)."""
    out = []
    todo = [expr]
    while todo:
        e = todo.pop()
        if isinstance(e, ast.Name):
            out.append(e)
        elif isinstance(e, ast.Constant):
            out.append(e)
        elif isinstance(e, ast.Attribute):
            out.append(e)
            # also the base object of the chain
            b = e
            while isinstance(b, ast.Attribute):
                b = b.value
            if not (isinstance(b, ast.Name) and b.id == 'self'):
                todo.append(b)
        elif isinstance(e, ast.Call):
            out.append(e)
            todo += list(e.args) + [k.value for k in e.keywords]
            if isinstance(e.func, ast.Attribute):
                todo.append(e.func.value)
        elif isinstance(e, ast.Lambda):
            continue
        else:
            todo += [c for c in ast.iter_child_nodes(e) if isinstance(c, ast.expr) or isinstance(c, (ast.comprehension, ast.Slice, ast.keyword))]
            for c in ast.iter_child_nodes(e):
                if isinstance(c, ast.comprehension):
                    todo += [c.iter] + list(c.ifs)
    return out


def guards_of(cfg, node_id):
    """tests that dominate node_id together with the polarity through which it is reached:
    [(test node id, 'T'|'F')] — a test dominates with polarity P if removing its P-edge makes node_id unreachable."""
    out = []
    for n in cfg.nodes:
        if n.kind != 'test' or n.id == node_id:
            continue
        for pol in ('T', 'F'):
            edges = cfg.edges_of(n.id, pol)
            if not edges:
                continue
            seen = cfg.reach([cfg.entry], blocked_edges=edges)
            if node_id not in seen:
                out.append((n.id, pol))
    return out
