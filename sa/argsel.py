"""
ARGSEL: positional arguments bound to the wrong parameter.

For every call with positional arguments that are plain variable names, the callee is resolved inside the package (method of the same
class for `self.m(...)`, otherwise every function / method with that name). A positional argument named `a` that lands on parameter
`p != a` while the callee HAS a parameter called `a` at another position is reported - the classic "inserted / dropped one positional
argument" slip (a value named network ending up as hardened, witness_type or as_private). A call is reported only if it is wrong for every
candidate callee.
"""
import ast


def arg_name(a):
    """the name an argument expression carries: a variable, the key of a dictionary access (env['sequence'], env.get('locktime')) or
    the last attribute of a dotted access (self.network -> network)"""
    if isinstance(a, ast.Name):
        return a.id
    if isinstance(a, ast.Subscript) and isinstance(a.slice, ast.Constant) and isinstance(a.slice.value, str):
        return a.slice.value
    if isinstance(a, ast.Call) and isinstance(a.func, ast.Attribute) and a.func.attr == 'get' and a.args and isinstance(a.args[0], ast.Constant) and isinstance(a.args[0].value, str):
        return a.args[0].value
    return None


def name_matches(k, p):
    return k == p or p.endswith('_' + k) or k.endswith('_' + p) or p.startswith(k + '_') or k.startswith(p + '_')


def scan_keyed(repo, by_name, modname, qual, fn):
    """like scan_function, for positional arguments that are dictionary accesses by a constant key (a context dict unpacked into a call):
    the key names the value; it must land on the parameter of (nearly) that name when the callee has one"""
    out = []
    cls = qual.split('.')[0] if '.' in qual else None
    for c in ast.walk(fn):
        if not isinstance(c, ast.Call) or len(c.args) < 2 or any(isinstance(a, ast.Starred) for a in c.args):
            continue
        keyed = [(i, arg_name(a)) for i, a in enumerate(c.args) if not isinstance(a, ast.Name) and arg_name(a)]
        if len(keyed) < 2:
            continue
        name = c.func.attr if isinstance(c.func, ast.Attribute) else (c.func.id if isinstance(c.func, ast.Name) else None)
        cands = by_name.get(name, []) if name else []
        if not cands or len(cands) > 4:
            continue
        verdicts = []
        for mn, q, f in cands:
            ps, var = _params(f)
            bad = []
            for i, k in keyed:
                if i >= len(ps) or name_matches(k, ps[i]):
                    continue
                others = [j for j, p_ in enumerate(ps) if j != i and name_matches(k, p_)]
                if others:
                    j = others[0]
                    filled = any(kw.arg == ps[j] for kw in c.keywords) or (j < len(c.args) and arg_name(c.args[j]) and name_matches(arg_name(c.args[j]), ps[j]))
                    if not filled:
                        bad.append((k, ps[i], i))
            verdicts.append(bad)
        if verdicts and all(verdicts):
            out.append((c, cands[0][1], verdicts[0]))
    return out


def _params(fn):
    a = fn.args
    names = [x.arg for x in a.posonlyargs + a.args]
    if names and names[0] in ('self', 'cls'):
        names = names[1:]
    return names, bool(a.vararg)


def index_functions(repo):
    by_name = {}
    for mn, m in repo.modules.items():
        for q, f in m.functions.items():
            by_name.setdefault(q.split('.')[-1] if not q.endswith('.setter') else None, []).append((mn, q, f))
    by_name.pop(None, None)
    return by_name


def scan_function(repo, by_name, modname, qual, fn):
    """[(call node, callee name, [(arg name, bound parameter, position)])]"""
    out = []
    cls = qual.split('.')[0] if '.' in qual else None
    for c in ast.walk(fn):
        if not isinstance(c, ast.Call) or len(c.args) < 2 or any(isinstance(a, ast.Starred) for a in c.args):
            continue
        if isinstance(c.func, ast.Attribute):
            name = c.func.attr
            base_self = isinstance(c.func.value, ast.Name) and c.func.value.id == 'self'
        elif isinstance(c.func, ast.Name):
            name = c.func.id
            base_self = False
        else:
            continue
        cands = by_name.get(name, [])
        if name == '__init__' or not cands:
            # constructor call Class(...): resolve to Class.__init__
            cands = [(mn, q, f) for (mn, q, f) in by_name.get('__init__', []) if q == name + '.__init__']
        if base_self and cls:
            own = [x for x in cands if x[0] == modname and x[1].split('.')[0] == cls]
            if own:
                cands = own
        if not cands or len(cands) > 4:
            continue
        verdicts = []
        for mn, q, f in cands:
            ps, var = _params(f)
            bad = []
            for i, a in enumerate(c.args):
                if not isinstance(a, ast.Name) or i >= len(ps):
                    continue
                if a.id != ps[i] and a.id in ps and ps.index(a.id) != i:
                    # the parameter of that name must not be filled by this call otherwise (keyword or the right position)
                    j = ps.index(a.id)
                    filled = any(k.arg == a.id for k in c.keywords) or (j < len(c.args) and isinstance(c.args[j], ast.Name) and c.args[j].id == a.id)
                    if not filled:
                        bad.append((a.id, ps[i], i))
            verdicts.append(bad)
        if verdicts and all(verdicts):
            # report against the candidate of the caller's own class when there is one (recursive / sibling-object calls)
            pick = 0
            for k, (mn, q, f) in enumerate(cands):
                if mn == modname and cls and q.split('.')[0] == cls:
                    pick = k
                    break
            out.append((c, cands[pick][1], verdicts[pick]))
    return out
