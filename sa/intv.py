"""
INTV: turn a decision tree (nested ``('cond', test, a, b)`` term over one integer variable, as produced
by sym.Interp) into the partition of an integer range into maximal intervals with the action taken.
The tests are evaluated exactly (arbitrary-precision ints) at every breakpoint constant c and at
c-1, c+1, which is exhaustive for trees whose tests are comparisons of the variable (possibly after
affine/bit operations folded to constants) with constants.
"""
from .core import AnalysisError
from .sym import subterms, show

_CMP = {
    '==': lambda a, b: a == b, '!=': lambda a, b: a != b, '<': lambda a, b: a < b, '<=': lambda a, b: a <= b,
    '>': lambda a, b: a > b, '>=': lambda a, b: a >= b, 'in': lambda a, b: a in b, 'not in': lambda a, b: a not in b,
    'is': lambda a, b: a is b, 'is not': lambda a, b: a is not b,
}
_BIN = {
    '+': lambda a, b: a + b, '-': lambda a, b: a - b, '*': lambda a, b: a * b, '//': lambda a, b: a // b,
    '/': lambda a, b: a / b, '%': lambda a, b: a % b, '&': lambda a, b: a & b, '|': lambda a, b: a | b, '^': lambda a, b: a ^ b,
    '<<': lambda a, b: a << b, '>>': lambda a, b: a >> b, '**': lambda a, b: a ** b,
}


class Unknown(Exception):
    pass


def tree_eval(t, subst):
    """Evaluate a term under a substitution {term: concrete}. Leaves that are not fully concrete are
    returned as terms (with the substitution applied where possible). Raises Unknown for undecidable tests."""
    if t in subst:
        return subst[t]
    if not isinstance(t, tuple) or not t:
        return t
    op = t[0]
    if op == 'cond':
        c = truth_eval(t[1], subst)
        return tree_eval(t[2] if c else t[3], subst)
    return t


def value_eval(t, subst):
    try:
        if t in subst:
            return subst[t]
    except TypeError:
        pass
    if not isinstance(t, tuple) or not t:
        return t
    op = t[0]
    if op == 'binop':
        a, b = value_eval(t[2], subst), value_eval(t[3], subst)
        return _BIN[t[1]](a, b)
    if op == 'unop':
        a = value_eval(t[2], subst)
        return {'USub': lambda x: -x, 'UAdd': lambda x: +x, 'Invert': lambda x: ~x}[t[1]](a)
    if op == 'int':
        return int(value_eval(t[1], subst))
    if op == 'call' and t[1] == 'abs' and len(t[2]) == 1:
        return abs(value_eval(t[2][0], subst))
    if op == 'call' and t[1] == 'pow' and len(t[2]) in (2, 3):
        return pow(*[value_eval(x, subst) for x in t[2]])
    if op in ('tuple', 'list'):
        return [value_eval(x, subst) for x in t[1:]]
    if op == 'cond':
        return value_eval(t[2] if truth_eval(t[1], subst) else t[3], subst)
    raise Unknown(show(t))


def truth_eval(t, subst):
    if t is True or t is False:
        return t
    try:
        if t in subst:
            return bool(subst[t])
    except TypeError:
        pass
    try:
        if ('len', t) in subst:
            return bool(subst[('len', t)])      # truth of a sized value is "not empty"
    except TypeError:
        pass
    if not isinstance(t, tuple) or not t:
        return bool(t)
    op = t[0]
    if op == 'not':
        return not truth_eval(t[1], subst)
    if op == 'bool':
        # three-valued: a decided operand settles the result whatever the undecidable ones are
        vals, unknown = [], None
        for x in t[2]:
            try:
                vals.append(bool(truth_eval(x, subst)))
            except (Unknown, KeyError, TypeError) as e:
                unknown = e
        if t[1] == 'and':
            if any(v is False for v in vals):
                return False
        elif any(v is True for v in vals):
            return True
        if unknown is not None:
            raise unknown if isinstance(unknown, Unknown) else Unknown(show(t))
        return t[1] == 'and'
    if op == 'cmp':
        a, b = value_eval(t[2], subst), value_eval(t[3], subst)
        if isinstance(a, tuple) or (isinstance(b, tuple) and t[1] not in ('in', 'not in')):
            raise Unknown(show(t))
        return bool(_CMP[t[1]](a, b))
    return bool(value_eval(t, subst))


def constants_in(t):
    out = set()
    for s in subterms(t):
        if isinstance(s, tuple) and s and s[0] == 'cmp':
            for x in s[2:]:
                if isinstance(x, int) and not isinstance(x, bool):
                    out.add(x)
                if isinstance(x, tuple):
                    for y in x:
                        if isinstance(y, int) and not isinstance(y, bool):
                            out.add(y)
    return out


def partition(tree, var, lo, hi, extra_points=()):
    """[(a, b, leaf)] maximal intervals of [lo, hi] on which the tree selects ``leaf`` (a term with var free)."""
    pts = {lo, hi}
    for c in set(constants_in(tree)) | set(extra_points):
        for d in (-1, 0, 1):
            if lo <= c + d <= hi:
                pts.add(c + d)
    pts = sorted(pts)
    # leaves are compared structurally (var is left free inside leaves)
    segs = []
    for p in pts:
        try:
            leaf = select_leaf(tree, {var: p})
        except Unknown as e:
            raise AnalysisError('test not decidable for %s=%d: %s' % (show(var), p, e))
        segs.append((p, leaf))
    out = []
    for i, (p, leaf) in enumerate(segs):
        if out and out[-1][2] == leaf:
            out[-1] = (out[-1][0], p, leaf)
        else:
            # the gap between previous point and this one contains no breakpoint, so it belongs to the previous leaf
            # only if the previous point and this one agree; otherwise this point starts a new interval exactly here
            if out:
                prev_end = out[-1][1]
                if prev_end + 1 < p:
                    # interior of the gap: no constant inside, evaluate its midpoint
                    mid = (prev_end + p) // 2
                    mleaf = select_leaf(tree, {var: mid})
                    if mleaf == out[-1][2]:
                        out[-1] = (out[-1][0], p - 1, mleaf)
                    elif mleaf == leaf:
                        out.append((prev_end + 1, p, leaf))
                        continue
                    else:
                        out.append((prev_end + 1, p - 1, mleaf))
            out.append((p, p, leaf))
    # merge adjacent equal leaves
    merged = []
    for a, b, leaf in out:
        if merged and merged[-1][2] == leaf and merged[-1][1] + 1 == a:
            merged[-1] = (merged[-1][0], b, leaf)
        else:
            merged.append((a, b, leaf))
    return merged


def select_leaf(t, subst):
    """walk cond nodes using the substitution for tests only; the leaf keeps the variable free"""
    while isinstance(t, tuple) and t and t[0] == 'cond':
        t = t[2] if truth_eval(t[1], subst) else t[3]
    if isinstance(t, tuple) and t and t[0] == 'cat':
        # conds nested inside a concatenation: resolve them too
        parts = []
        for p in t[1]:
            parts.append(select_leaf(p, subst))
        return ('cat', tuple(parts))
    return t


def specialise(t, subst):
    """rewrite a term under a substitution: decidable cond nodes are resolved, integer arithmetic folded"""
    from .sym import rewrite
    from .layout import fold_arith

    def f(x):
        try:
            if x in subst:
                return subst[x]
        except TypeError:
            pass
        if isinstance(x, tuple) and x and x[0] == 'cond':
            try:
                return x[2] if truth_eval(x[1], {}) else x[3]
            except (Unknown, KeyError, TypeError, ZeroDivisionError):
                return None
        if isinstance(x, tuple) and x and x[0] in ('cmp', 'not', 'bool'):
            try:
                return truth_eval(x, {})
            except (Unknown, KeyError, TypeError, ZeroDivisionError):
                return None
        return None
    # substitute first (top-down replacement of the variable), then fold bottom-up
    def sub(x):
        try:
            if x in subst:
                return subst[x]
        except TypeError:
            pass
        if isinstance(x, tuple):
            return tuple(sub(y) for y in x)
        return x
    return fold_arith(rewrite(fold_arith(sub(t)), f))


def exit_feasible(e, subst):
    """False if some conjunct of the exit's path condition is decidable under subst and has the wrong polarity."""
    for (t, pol) in e.pc:
        try:
            v = truth_eval(specialise(t, subst), {})
        except (Unknown, KeyError, TypeError, ZeroDivisionError):
            continue
        if isinstance(v, tuple):
            continue
        if bool(v) != pol:
            return False
    return True


def breakpoints(exits_or_terms, lo, hi, extra=()):
    pts = {lo, hi}
    cs = set(extra)
    for x in exits_or_terms:
        if hasattr(x, 'pc'):
            for (t, pol) in x.pc:
                cs |= constants_in(('wrap', t))
            from .sym import term
            cs |= constants_in(('wrap', term(x.value)))
        else:
            cs |= constants_in(('wrap', x))
    for c in cs:
        for d in (-1, 0, 1):
            if lo <= c + d <= hi:
                pts.add(c + d)
    return sorted(pts)


def canon(t):
    """canonical form for propositional reasoning: a != b -> not (a == b); not in -> not in; operands of == ordered"""
    if isinstance(t, tuple) and t and t[0] == 'cmp':
        op, a, b = t[1], t[2], t[3]
        if op in ('==', '!='):
            try:
                if repr(a) > repr(b):
                    a, b = b, a
            except Exception:
                pass
            base = ('cmp', '==', a, b)
            return base if op == '==' else ('not', base)
        if op == 'not in':
            return ('not', ('cmp', 'in', a, b))
        if op == 'is not':
            return ('not', ('cmp', 'is', a, b))
        return t
    if isinstance(t, tuple) and t and t[0] == 'not':
        return ('not', canon(t[1]))
    if isinstance(t, tuple) and t and t[0] == 'bool':
        return ('bool', t[1], tuple(canon(x) for x in t[2]))
    if isinstance(t, tuple) and t and t[0] == 'cond':
        return ('cond', canon(t[1]), canon(t[2]), canon(t[3]))
    return t


def _atoms(t, out):
    if isinstance(t, tuple) and t and t[0] == 'not':
        _atoms(t[1], out)
    elif isinstance(t, tuple) and t and t[0] == 'bool':
        for x in t[2]:
            _atoms(x, out)
    elif isinstance(t, tuple) and t and t[0] == 'cond':
        _atoms(t[1], out); _atoms(t[2], out); _atoms(t[3], out)
    elif t is True or t is False or t is None:
        pass
    else:
        if t not in out:
            out.append(t)


def _peval(t, asg):
    if isinstance(t, tuple) and t and t[0] == 'not':
        return not _peval(t[1], asg)
    if isinstance(t, tuple) and t and t[0] == 'bool':
        vals = [_peval(x, asg) for x in t[2]]
        return all(vals) if t[1] == 'and' else any(vals)
    if isinstance(t, tuple) and t and t[0] == 'cond':
        return _peval(t[2], asg) if _peval(t[1], asg) else _peval(t[3], asg)
    if t is True or t is False or t is None:
        return bool(t)
    return asg[t]


def _peval3(t, asg):
    """three-valued evaluation under a partial assignment (None = unknown)"""
    if isinstance(t, tuple) and t and t[0] == 'not':
        v = _peval3(t[1], asg)
        return None if v is None else (not v)
    if isinstance(t, tuple) and t and t[0] == 'bool':
        unknown = False
        if t[1] == 'and':
            for x in t[2]:
                v = _peval3(x, asg)
                if v is False:
                    return False
                if v is None:
                    unknown = True
            return None if unknown else True
        for x in t[2]:
            v = _peval3(x, asg)
            if v is True:
                return True
            if v is None:
                unknown = True
        return None if unknown else False
    if isinstance(t, tuple) and t and t[0] == 'cond':
        c = _peval3(t[1], asg)
        if c is True:
            return _peval3(t[2], asg)
        if c is False:
            return _peval3(t[3], asg)
        a, b = _peval3(t[2], asg), _peval3(t[3], asg)
        return a if a == b and a is not None else None
    if t is True or t is False or t is None:
        return bool(t)
    return asg.get(t)


def satisfiable(pc, extra=(), limit=200000):
    """Propositional satisfiability of a path condition [(term, polarity)] plus extra [(term, polarity)], treating every
    subterm that is not a boolean connective as an independent atom (so UNSAT => the combination is impossible; SAT may be
    spurious). Backtracking search with three-valued evaluation; gives up (returns True) after ``limit`` steps."""
    forms = [(canon(t), pol) for t, pol in list(pc) + list(extra)]
    atoms = []
    for t, pol in forms:
        _atoms(t, atoms)
    steps = [0]
    # unit literals first (path conditions are mostly conjunctions of literals)
    unit = {}
    for t, pol in forms:
        lit, val = t, pol
        while isinstance(lit, tuple) and lit and lit[0] == 'not':
            lit, val = lit[1], not val
        if isinstance(lit, tuple) and lit and lit[0] in ('bool', 'cond'):
            if lit[0] == 'bool' and ((lit[1] == 'and' and val) or (lit[1] == 'or' and not val)):
                # conjunction required true / disjunction required false: every member is a unit
                for x in lit[2]:
                    forms.append((x, val))
            continue
        if lit is True or lit is False or lit is None:
            if bool(lit) != val:
                return False
            continue
        if lit in unit and unit[lit] != val:
            return False
        unit[lit] = val

    def status(asg):
        unknown = False
        for t, pol in forms:
            v = _peval3(t, asg)
            if v is None:
                unknown = True
            elif v != pol:
                return False
        return None if unknown else True

    def search(i, asg):
        steps[0] += 1
        if steps[0] > limit:
            return True
        st = status(asg)
        if st is False:
            return False
        if st is True:
            return True
        # next unassigned atom
        while i < len(atoms) and atoms[i] in asg:
            i += 1
        if i >= len(atoms):
            return True
        a = atoms[i]
        for val in (True, False):
            asg[a] = val
            if search(i + 1, asg):
                del asg[a]
                return True
            del asg[a]
        return False
    return search(0, dict(unit))
