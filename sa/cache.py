"""
CACHE: memoisation idioms and the completeness of their keys.

A *keyed memo* is a container D (attribute of self or module-level name) that a function both looks up (`K in D`, `D.get(K)`,
`D[K]`) and stores into (`D[K'] = V`).  The value V may depend (data flow through local and self.attr definitions, and control
flow: the tests that decide which definition is taken) on parameters and - for a container shared between objects - on attributes
of self.  Every such dependency must also be a dependency of the key that is LOOKED UP, otherwise two calls that differ in it
share one entry.
"""
import ast

from .cfg import build_cfg
from .core import unparse, norm
from .dfa import ReachingDefs


class Memo:
    def __init__(self, container, shared, lookup_key, lookup_node, store_key, store_value, store_node):
        self.container, self.shared = container, shared
        self.lookup_key, self.lookup_node = lookup_key, lookup_node
        self.store_key, self.store_value, self.store_node = store_key, store_value, store_node


def _container_of(node):
    """D for `D[K]`, `K in D`, `D.get(K)`: returns (text, shared?) when D is self.<attr> or a bare module-level name"""
    if isinstance(node, ast.Attribute) and isinstance(node.value, ast.Name) and node.value.id == 'self':
        return 'self.' + node.attr, False
    if isinstance(node, ast.Name):
        return node.id, True
    return None, None


def keyed_memos(fn, module_names=()):
    """[(Memo)] found in fn"""
    stores, lookups = [], []
    local = set(n.id for n in ast.walk(fn) if isinstance(n, ast.Name) and isinstance(n.ctx, ast.Store))
    for n in ast.walk(fn):
        if isinstance(n, ast.Assign) and len(n.targets) == 1 and isinstance(n.targets[0], ast.Subscript):
            d, shared = _container_of(n.targets[0].value)
            if d and not (shared and (d in local or d not in module_names)):
                stores.append((d, shared, n.targets[0].slice, n.value, n))
        if isinstance(n, ast.Compare) and len(n.ops) == 1 and isinstance(n.ops[0], (ast.In, ast.NotIn)):
            d, shared = _container_of(n.comparators[0])
            if d:
                lookups.append((d, n.left, n))
        if isinstance(n, ast.Call) and isinstance(n.func, ast.Attribute) and n.func.attr == 'get' and n.args:
            d, shared = _container_of(n.func.value)
            if d:
                lookups.append((d, n.args[0], n))
    out = []
    for d, shared, sk, sv, sn in stores:
        for d2, lk, ln in lookups:
            if d2 == d:
                out.append(Memo(d, shared, lk, ln, sk, sv, sn))
                break
    return out


def deps(rd, expr, node_id):
    """(parameters, self attributes) the value of expr at node_id depends on, data and control"""
    lv = rd.leaves(expr, node_id, depth=8)
    params = set(x[1] for x in lv if x[0] == 'param' and x[1] not in ('self', 'cls'))
    attrs = set(x[1] for x in lv if x[0] == 'attr' and x[1].startswith('self.'))
    return params, attrs


def check_memo(fn, memo):
    """missing dependencies of the looked-up key: (missing params, missing self attrs)"""
    rd = ReachingDefs(fn, track_self=True)
    rd.control = True
    ln = rd.node_of_ast(memo.lookup_node)
    sn = rd.node_of_ast(memo.store_node)
    if ln is None or sn is None:
        return None
    kp, ka = deps(rd, memo.lookup_key, ln)
    vp, va = deps(rd, memo.store_value, sn)
    # the store itself may be conditional: its guards are part of what decides the value that ends up cached
    cp = set()
    ca = set()
    for x in rd._control_leaves(sn, 6, set()):
        if x[0] == 'param' and x[1] not in ('self', 'cls'):
            cp.add(x[1])
        elif x[0] == 'attr' and x[1].startswith('self.'):
            ca.add(x[1])
    container_attr = memo.container if memo.container.startswith('self.') else None
    miss_p = (vp | cp) - kp
    miss_a = ((va | ca) - ka - {container_attr}) if memo.shared else set()
    return sorted(miss_p), sorted(miss_a), sorted(kp), sorted(ka)


# ---------------------------------------------------------------------------------------------- attribute memos
class AttrMemo:
    def __init__(self, cls, method, attr, fn, store, deps, validated):
        self.cls, self.method, self.attr, self.fn, self.store = cls, method, attr, fn, store
        self.deps, self.validated = deps, validated


def _base_attr(text):
    """'self.network.prefix_wif' -> 'network'"""
    parts = text.split('.')
    return parts[1] if len(parts) > 1 and parts[0] == 'self' else None


def class_methods(minfo, cname):
    return {q.split('.', 1)[1]: f for q, f in minfo.functions.items() if q.startswith(cname + '.')}


def _is_property(f):
    return any((isinstance(d, ast.Name) and d.id == 'property') for d in f.decorator_list)


def attr_reads(fn, methods, depth=2, _seen=None):
    """base attributes of self read anywhere in fn (properties of the class expanded)"""
    _seen = _seen if _seen is not None else set()
    out = set()
    for n in ast.walk(fn):
        if isinstance(n, ast.Attribute) and isinstance(n.value, ast.Name) and n.value.id == 'self' and isinstance(n.ctx, ast.Load):
            a = n.attr
            if a in methods and _is_property(methods[a]) and depth > 0 and a not in _seen:
                _seen.add(a)
                out |= attr_reads(methods[a], methods, depth - 1, _seen)
            elif a not in methods:
                out.add(a)
            elif depth > 0 and a not in _seen and not _is_property(methods[a]):
                # self.method(...) called (or handed on): what that method reads is read here too
                _seen.add(a)
                out |= attr_reads(methods[a], methods, depth - 1, _seen)
    return out


def attr_memos(minfo, cname):
    """memoised attributes of class cname: `self._c = E` stored under a test that mentions self._c (or after an early return of it)"""
    methods = class_methods(minfo, cname)
    out = []
    for mname, f in methods.items():
        if mname == '__init__':
            continue
        tests_attr = {}
        for n in ast.walk(f):
            if isinstance(n, ast.If):
                for a in ast.walk(n.test):
                    if isinstance(a, ast.Attribute) and isinstance(a.value, ast.Name) and a.value.id == 'self' and a.attr.startswith('_'):
                        tests_attr.setdefault(a.attr, []).append(n)
        for n in ast.walk(f):
            if isinstance(n, ast.Assign) and len(n.targets) == 1 and isinstance(n.targets[0], ast.Attribute) and isinstance(n.targets[0].value, ast.Name) \
                    and n.targets[0].value.id == 'self' and n.targets[0].attr in tests_attr:
                c = n.targets[0].attr
                if isinstance(n.value, ast.Constant) and n.value.value in (None, '', b'', False, 0):
                    continue        # a reset, not a fill
                # the fill must be returned / be the purpose of the method: the method reads self._c after (return self._c) or returns it early
                returns_c = any(isinstance(r, ast.Return) and r.value is not None and any(isinstance(a, ast.Attribute) and a.attr == c for a in ast.walk(r.value)) for r in ast.walk(f))
                if not returns_c:
                    continue
                # dependencies of the stored value: attributes of self read by the statements of the guarded block (and property expansions)
                guard = tests_attr[c][0]
                if any(n is x for s_ in guard.body for x in ast.walk(s_)):
                    stmts = list(guard.body)
                else:
                    # early-return style: `if self._c and <valid>: return self._c` ... compute ... `self._c = E`: everything after the guard
                    stmts = [s_ for s_ in f.body if getattr(s_, 'lineno', 0) > guard.lineno and getattr(s_, 'lineno', 0) <= n.lineno]
                scope = ast.Module(body=stmts or [n], type_ignores=[])
                deps = attr_reads(scope, methods) - {c}
                companions = set(x.attr for s_ in (stmts or [n]) for t_ in ast.walk(s_) if isinstance(t_, (ast.Assign, ast.AugAssign))
                                 for tg in (t_.targets if isinstance(t_, ast.Assign) else [t_.target]) for x in ast.walk(tg)
                                 if isinstance(x, ast.Attribute) and isinstance(x.value, ast.Name) and x.value.id == 'self')
                validated = set()
                for g in tests_attr[c]:
                    for a in ast.walk(g.test):
                        if isinstance(a, ast.Attribute) and isinstance(a.value, ast.Name) and a.value.id == 'self' and a.attr != c:
                            validated.add(a.attr)
                    # locals compared in the guard: their own attribute sources count as validated
                    names = set(x.id for x in ast.walk(g.test) if isinstance(x, ast.Name) and x.id != 'self')
                    for s in ast.walk(f):
                        if isinstance(s, ast.Assign) and isinstance(s.targets[0], ast.Name) and s.targets[0].id in names:
                            validated |= attr_reads(ast.Module(body=[s], type_ignores=[]), methods)
                am = AttrMemo(cname, mname, c, f, n, deps, validated)
                am.companions = companions
                # parameters of the method that the stored value depends on (read by the filling statements, their tests included)
                params = set(a.arg for a in f.args.args[1:] + f.args.kwonlyargs)
                used = set(x.id for s_ in (stmts or [n]) for x in ast.walk(s_) if isinstance(x, ast.Name) and x.id in params and isinstance(x.ctx, ast.Load))
                # locals derived from parameters inside the method count as the parameter
                for s_ in ast.walk(f):
                    if isinstance(s_, ast.Assign) and isinstance(s_.targets[0], ast.Name):
                        src = set(x.id for x in ast.walk(s_.value) if isinstance(x, ast.Name) and x.id in params)
                        if src and any(isinstance(x, ast.Name) and x.id == s_.targets[0].id and isinstance(x.ctx, ast.Load) for y in (stmts or [n]) for x in ast.walk(y)):
                            used |= src
                am.param_deps = used
                am.param_validated = set()
                if used:
                    # parameters the reuse test validates: through data or control dependence of the values it compares
                    from .dfa import ReachingDefs
                    rd = ReachingDefs(f)
                    rd.control = True
                    for g in tests_attr[c]:
                        for x in ast.walk(g.test):
                            if not isinstance(x, ast.Name) or x.id == 'self':
                                continue
                            nid = rd.node_of_ast(x)
                            if nid is None:
                                continue
                            for lf in rd.leaves(x, nid):
                                if len(lf) >= 2 and lf[0] == 'param' and lf[1] in params:
                                    am.param_validated.add(lf[1])
                out.append(am)
    return out


def stale_writers(minfo, family, memo, lazy=()):
    """[(class, method, attribute, node)]: methods that assign a dependency of the memo without resetting the memo.
    ``lazy``: attributes that are themselves memo fills (lazy initialisation is not a change of state)"""
    out = []
    need = memo.deps - memo.validated - set(lazy)
    for cname in family:
        for mname, f in class_methods(minfo, cname).items():
            if mname == '__init__' or (cname == memo.cls and mname == memo.method):
                continue
            assigned = {}
            resets = False
            for n in ast.walk(f):
                if isinstance(n, (ast.Assign, ast.AugAssign)):
                    tg = n.targets if isinstance(n, ast.Assign) else [n.target]
                    for t in tg:
                        for x in ast.walk(t):
                            if isinstance(x, ast.Attribute) and isinstance(x.value, ast.Name) and x.value.id == 'self' and isinstance(x.ctx, ast.Store):
                                if x.attr == memo.attr:
                                    # `self.memo += ...` extends whatever the memo holds - nothing when it was never filled: not a reset
                                    if not isinstance(n, ast.AugAssign):
                                        resets = True
                                elif x.attr in need:
                                    assigned.setdefault(x.attr, n)
            if assigned and not resets:
                for a, node in assigned.items():
                    out.append((cname, mname, a, node))
    return out


MEMO_DECORATORS = ('lru_cache', 'cache', 'cached_property', 'functools.lru_cache', 'functools.cache', 'functools.cached_property', 'memoize', 'memoized')


def decorator_memos(minfo, repo=None, modname=None):
    """[(class, method, decorator text, attributes read by the method that the cache key does not cover)] for methods memoised by a decorator.

    lru_cache / cache on an instance method keys the cache on (self, *args): `self` is compared with the class's __eq__ / __hash__. When the
    class defines them over a subset of its state (Key: key material only), every other attribute the method reads - directly, through
    properties or through self-methods it calls - is missing from the key. Without custom equality the key is the object identity: then
    every attribute that any method of the class assigns after construction can make the cached value stale."""
    import ast as _ast
    out = []
    for cname, c in minfo.classes.items():
        methods = class_methods(minfo, cname)
        # inherited equality (single inheritance inside the module)
        eq_attrs = None
        cur = c
        chain = [cname]
        while cur is not None:
            ms = class_methods(minfo, cur.name)
            if '__eq__' in ms or '__hash__' in ms:
                eq_attrs = set()
                for nm in ('__eq__', '__hash__'):
                    if nm in ms:
                        eq_attrs |= attr_reads(ms[nm], ms)
                break
            nxt = None
            for b in cur.bases:
                if isinstance(b, _ast.Name) and b.id in minfo.classes:
                    nxt = minfo.classes[b.id]
                    chain.append(b.id)
                    break
            cur = nxt
        allm = {}
        for cn in reversed(chain):
            allm.update(class_methods(minfo, cn))
        for mname, f in methods.items():
            for d in f.decorator_list:
                dn = d.func if isinstance(d, _ast.Call) else d
                text = _ast.unparse(dn)
                if text not in MEMO_DECORATORS:
                    continue
                reads = set()
                todo, seen = [f], set()
                while todo:
                    g = todo.pop()
                    if id(g) in seen:
                        continue
                    seen.add(id(g))
                    reads |= attr_reads(g, allm)
                    for call in _ast.walk(g):
                        if isinstance(call, _ast.Call) and isinstance(call.func, _ast.Attribute) and isinstance(call.func.value, _ast.Name) and call.func.value.id == 'self' and call.func.attr in allm:
                            todo.append(allm[call.func.attr])
                if eq_attrs is not None:
                    missing = sorted(a for a in reads - eq_attrs if not a.startswith('__'))
                else:
                    # identity key: attributes assigned outside __init__ by any method of the class family
                    mutable = set()
                    for mn, g in allm.items():
                        if mn == '__init__':
                            continue
                        for s_ in _ast.walk(g):
                            if isinstance(s_, (_ast.Assign, _ast.AugAssign)):
                                for t in (s_.targets if isinstance(s_, _ast.Assign) else [s_.target]):
                                    if isinstance(t, _ast.Attribute) and isinstance(t.value, _ast.Name) and t.value.id == 'self':
                                        mutable.add(t.attr)
                    missing = sorted(reads & mutable)
                out.append((cname, mname, text, missing, eq_attrs is not None))
    return out
