"""
CACHE: memoisation idioms and the completeness of their keys.

A *keyed memo* is a container D (attribute of self or module-level name) that a function both looks up (`K in D`, `D.get(K)`,
`D[K]`) and stores into (`D[K'] = V`).  The value V may depend (data flow through local and self.attr definitions, and control
flow: the tests that decide which definition is taken) on parameters and - for a container shared between objects - on attributes
of self.  Every such dependency must also be a dependency of the key that is LOOKED UP, otherwise two calls that differ in it
share one entry.
"""
import ast

from .cfg import build_cfg
from .core import unparse, norm
from .dfa import ReachingDefs


class Memo:
    def __init__(self, container, shared, lookup_key, lookup_node, store_key, store_value, store_node):
        self.container, self.shared = container, shared
        self.lookup_key, self.lookup_node = lookup_key, lookup_node
        self.store_key, self.store_value, self.store_node = store_key, store_value, store_node


def _container_of(node):
    """D for `D[K]`, `K in D`, `D.get(K)`: returns (text, shared?) when D is self.<attr> or a bare module-level name"""
    if isinstance(node, ast.Attribute) and isinstance(node.value, ast.Name) and node.value.id == 'self':
        return 'self.' + node.attr, False
    if isinstance(node, ast.Name):
        return node.id, True
    return None, None


def keyed_memos(fn, module_names=()):
    """[(Memo)] found in fn"""
    stores, lookups = [], []
    local = set(n.id for n in ast.walk(fn) if isinstance(n, ast.Name) and isinstance(n.ctx, ast.Store))
    for n in ast.walk(fn):
        if isinstance(n, ast.Assign) and len(n.targets) == 1 and isinstance(n.targets[0], ast.Subscript):
            d, shared = _container_of(n.targets[0].value)
            if d and not (shared and (d in local or d not in module_names)):
                stores.append((d, shared, n.targets[0].slice, n.value, n))
        if isinstance(n, ast.Compare) and len(n.ops) == 1 and isinstance(n.ops[0], (ast.In, ast.NotIn)):
            d, shared = _container_of(n.comparators[0])
            if d:
                lookups.append((d, n.left, n))
        if isinstance(n, ast.Call) and isinstance(n.func, ast.Attribute) and n.func.attr == 'get' and n.args:
            d, shared = _container_of(n.func.value)
            if d:
                lookups.append((d, n.args[0], n))
    out = []
    for d, shared, sk, sv, sn in stores:
        for d2, lk, ln in lookups:
            if d2 == d:
                out.append(Memo(d, shared, lk, ln, sk, sv, sn))
                break
    return out


def deps(rd, expr, node_id):
    """(parameters, self attributes) the value of expr at node_id depends on, data and control"""
    lv = rd.leaves(expr, node_id, depth=8)
    params = set(x[1] for x in lv if x[0] == 'param' and x[1] not in ('self', 'cls'))
    attrs = set(x[1] for x in lv if x[0] == 'attr' and x[1].startswith('self.'))
    return params, attrs


def check_memo(fn, memo):
    """missing dependencies of the looked-up key: (missing params, missing self attrs)"""
    rd = ReachingDefs(fn, track_self=True)
    rd.control = True
    ln = rd.node_of_ast(memo.lookup_node)
    sn = rd.node_of_ast(memo.store_node)
    if ln is None or sn is None:
        return None
    kp, ka = deps(rd, memo.lookup_key, ln)
    vp, va = deps(rd, memo.store_value, sn)
    # the store itself may be conditional: its guards are part of what decides the value that ends up cached
    cp = set()
    ca = set()
    for x in rd._control_leaves(sn, 6, set()):
        if x[0] == 'param' and x[1] not in ('self', 'cls'):
            cp.add(x[1])
        elif x[0] == 'attr' and x[1].startswith('self.'):
            ca.add(x[1])
    container_attr = memo.container if memo.container.startswith('self.') else None
    miss_p = (vp | cp) - kp
    miss_a = ((va | ca) - ka - {container_attr}) if memo.shared else set()
    return sorted(miss_p), sorted(miss_a), sorted(kp), sorted(ka)
