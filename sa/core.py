"""
Core of the static-analysis machinery: repository index (IDX), constant folding (TABLE),
obligation bookkeeping, known findings, evidence and exit-code protocol.

Nothing in here (or in any checker) imports or executes code of the repository under analysis;
sources are read as text and parsed with ``ast``; JSON / word-list data files are read as data.
"""
import ast
import copy
import hashlib
import json
import os
import sys
import time
import traceback

VERIF_DIR = os.path.dirname(os.path.dirname(os.path.abspath(__file__)))
REPO_ROOT = os.environ.get('VERIF_REPO', '/repo')
PKG = 'bitcoinlib'


class AnalysisError(Exception):
    """The analyser cannot decide (anchor vanished, construct outside the modelled subset). Exit 2."""


# --------------------------------------------------------------------------------------------
# Repository index
# --------------------------------------------------------------------------------------------

class ModuleInfo:
    def __init__(self, name, path, src, tree):
        self.name = name          # 'keys', 'config.config', 'services.services'
        self.path = path          # path relative to repo root
        self.src = src
        self.tree = tree
        self.functions = {}       # qualname -> FunctionDef   ('f', 'Class.m')
        self.classes = {}         # name -> ClassDef
        self.imports = {}         # local name -> (module, name|None)
        self.star_imports = []    # module names
        self._index()

    def _index(self):
        for node in self.tree.body:
            if isinstance(node, (ast.FunctionDef, ast.AsyncFunctionDef)):
                self.functions[node.name] = node
            elif isinstance(node, ast.ClassDef):
                self.classes[node.name] = node
                for sub in node.body:
                    if isinstance(sub, (ast.FunctionDef, ast.AsyncFunctionDef)):
                        key = '%s.%s' % (node.name, sub.name)
                        # property setter shares the name with the getter
                        if any(isinstance(d, ast.Attribute) and d.attr == 'setter' for d in sub.decorator_list):
                            key += '.setter'
                        self.functions[key] = sub
            elif isinstance(node, ast.ImportFrom):
                mod = _rel_module(self.name, node.module, node.level)
                for a in node.names:
                    if a.name == '*':
                        if mod is not None:
                            self.star_imports.append(mod)
                    else:
                        self.imports[a.asname or a.name] = (mod if mod is not None else node.module, a.name)
            elif isinstance(node, ast.Import):
                for a in node.names:
                    self.imports[(a.asname or a.name).split('.')[0]] = (a.name, None)


def _rel_module(cur, module, level):
    """Map an import to a package-internal module name ('keys', 'config.opcodes') or None if external."""
    if level:
        base = cur.split('.')[:-1]
        if level > 1:
            base = base[:-(level - 1)] if level - 1 <= len(base) else []
        parts = base + (module.split('.') if module else [])
        return '.'.join(parts)
    if module and (module == PKG or module.startswith(PKG + '.')):
        return module[len(PKG) + 1:]
    return None


class Repo:
    """Parsed package. ``overrides`` maps module name -> ast.Module (used by in-memory canary mutants)."""

    def __init__(self, root=None, overrides=None):
        self.root = root or REPO_ROOT
        self.modules = {}
        self.files_parsed = 0
        pkgdir = os.path.join(self.root, PKG)
        if not os.path.isdir(pkgdir):
            raise AnalysisError('package directory %s not found' % pkgdir)
        for dirpath, dirnames, filenames in os.walk(pkgdir):
            dirnames[:] = sorted(d for d in dirnames if d != '__pycache__')
            for fn in sorted(filenames):
                if not fn.endswith('.py'):
                    continue
                full = os.path.join(dirpath, fn)
                rel = os.path.relpath(full, self.root)
                name = os.path.relpath(full, pkgdir)[:-3].replace(os.sep, '.')
                if name.endswith('__init__'):
                    name = name[:-len('.__init__')] if '.' in name else '__init__'
                with open(full, encoding='utf-8') as f:
                    src = f.read()
                try:
                    tree = ast.parse(src, filename=rel)
                except SyntaxError as e:
                    raise AnalysisError('cannot parse %s: %s' % (rel, e))
                self.files_parsed += 1
                if overrides and name in overrides:
                    tree = overrides[name]
                self.modules[name] = ModuleInfo(name, rel, src, tree)
        self.aligned = []
        if os.environ.get('VERIF_NO_ALIGN') != '1':
            from . import align
            for m in self.modules.values():
                self.aligned += align.align_module(m)
        self._const_cache = {}
        self._names_cache = {}

    # ---- canaries -----------------------------------------------------------------------
    def mutated(self, modname, mutate):
        """Return a new Repo whose module ``modname`` is a deep copy transformed by ``mutate(tree)``."""
        tree = copy.deepcopy(self.mod(modname).tree)
        res = mutate(tree)
        if res is False:
            raise AnalysisError('canary mutation did not apply in %s' % modname)
        ast.fix_missing_locations(tree)
        r = Repo.__new__(Repo)
        r.root = self.root
        r.aligned = self.aligned
        r.files_parsed = self.files_parsed
        r.modules = dict(self.modules)
        m = self.modules[modname]
        r.modules[modname] = ModuleInfo(m.name, m.path, m.src, tree)
        r._const_cache = {}
        r._names_cache = {}
        return r

    # ---- lookup --------------------------------------------------------------------------
    def mod(self, name):
        if name not in self.modules:
            raise AnalysisError('anchor module %s vanished' % name)
        return self.modules[name]

    def func(self, qual):
        """'keys:HDKey.child_public' -> FunctionDef (raises AnalysisError if the anchor vanished)."""
        modname, _, q = qual.partition(':')
        m = self.mod(modname)
        if q not in m.functions:
            raise AnalysisError('anchor %s vanished' % qual)
        return m.functions[q]

    def has_func(self, qual):
        modname, _, q = qual.partition(':')
        return modname in self.modules and q in self.modules[modname].functions

    def cls(self, qual):
        modname, _, q = qual.partition(':')
        m = self.mod(modname)
        if q not in m.classes:
            raise AnalysisError('anchor class %s vanished' % qual)
        return m.classes[q]

    def path_of(self, qual):
        return self.mod(qual.partition(':')[0]).path

    def loc(self, qual, node=None):
        p = self.path_of(qual)
        line = getattr(node, 'lineno', None)
        if line is None and node is None:
            try:
                line = self.func(qual).lineno
            except AnalysisError:
                line = 0
        return '%s:%s' % (p, line or 0)

    def methods_of(self, clsqual):
        modname, _, q = clsqual.partition(':')
        m = self.mod(modname)
        pre = q + '.'
        return {k[len(pre):]: v for k, v in m.functions.items() if k.startswith(pre)}

    def mro(self, clsqual):
        """Linearised list of class quals (single inheritance inside the package is all the repo uses)."""
        out = []
        cur = clsqual
        seen = set()
        while cur and cur not in seen:
            seen.add(cur)
            out.append(cur)
            modname, _, q = cur.partition(':')
            c = self.cls(cur)
            nxt = None
            for b in c.bases:
                if isinstance(b, ast.Name):
                    r = self.resolve_name(modname, b.id)
                    if r and r[1] in self.mod(r[0]).classes:
                        nxt = '%s:%s' % r
                        break
            cur = nxt
        return out

    def resolve_method(self, clsqual, meth):
        for c in self.mro(clsqual):
            modname, _, q = c.partition(':')
            if '%s.%s' % (q, meth) in self.mod(modname).functions:
                return '%s:%s.%s' % (modname, q, meth)
        return None

    def resolve_name(self, modname, name, _seen=None):
        """Resolve a bare name used in module ``modname`` to (module, name) where it is defined
        (function, class or module-level assignment), following imports and star imports."""
        _seen = _seen or set()
        if (modname, name) in _seen or modname not in self.modules:
            return None
        _seen.add((modname, name))
        m = self.modules[modname]
        if name in m.functions or name in m.classes or name in self.module_assigned_names(modname):
            return (modname, name)
        if name in m.imports:
            tgt, orig = m.imports[name]
            if orig is None:
                return None
            if tgt in self.modules:
                return self.resolve_name(tgt, orig, _seen) or None
            return None
        for s in m.star_imports:
            r = self.resolve_name(s, name, _seen)
            if r:
                return r
        return None

    def module_assigned_names(self, modname):
        if modname not in self._names_cache:
            names = set()
            for node in self.modules[modname].tree.body:
                for tgt in _assign_targets(node):
                    names.add(tgt)
            self._names_cache[modname] = names
        return self._names_cache[modname]

    # ---- constants -----------------------------------------------------------------------
    def consts(self, modname):
        """Folded module-level constants visible in ``modname`` (own assignments + star imports).
        The opcode numbering rule of config.opcodes is replayed statically (``op.op_x``, opcodenames)."""
        if modname in self._const_cache:
            return self._const_cache[modname]
        env = {}
        self._const_cache[modname] = env
        m = self.mod(modname)
        # names re-bound at run time through a `global` statement are configuration, not constants
        runtime = set()
        for n in ast.walk(m.tree):
            if isinstance(n, ast.Global):
                runtime |= set(n.names)
        self._runtime_globals = getattr(self, '_runtime_globals', {})
        self._runtime_globals[modname] = runtime
        for s in m.star_imports:
            if s in self.modules:
                env.update(self.consts(s))
                runtime |= self._runtime_globals.get(s, set())
        for name, (tgt, orig) in m.imports.items():
            if orig is not None and tgt in self.modules:
                sub = self.consts(tgt)
                if orig in sub:
                    env[name] = sub[orig]
        for node in m.tree.body:
            if isinstance(node, ast.Assign) and len(node.targets) == 1:
                t = node.targets[0]
                try:
                    val = fold(node.value, env)
                except NotConst:
                    if isinstance(node.value, ast.Dict) and isinstance(t, ast.Name):
                        # partially constant table: keep the entries that fold
                        part = {}
                        for k, v in zip(node.value.keys, node.value.values):
                            try:
                                part[fold(k, env)] = fold(v, env)
                            except (NotConst, TypeError, AttributeError):
                                pass
                        if part:
                            env[t.id] = part
                    continue
                if isinstance(t, ast.Name):
                    env[t.id] = val
                elif isinstance(t, ast.Tuple) and isinstance(val, (tuple, list)) and len(val) == len(t.elts):
                    for e, v in zip(t.elts, val):
                        if isinstance(e, ast.Name):
                            env[e.id] = v
            elif isinstance(node, ast.AnnAssign) and node.value is not None and isinstance(node.target, ast.Name):
                try:
                    env[node.target.id] = fold(node.value, env)
                except NotConst:
                    pass
        if modname == 'config.opcodes':
            self._replay_opcodes(env)
        for n in runtime:
            env.pop(n, None)
        return env

    def _replay_opcodes(self, env):
        ops = env.get('_opcodes')
        if not isinstance(ops, list):
            raise AnalysisError('config.opcodes:_opcodes is no longer a literal list')
        # the numbering rule is checked structurally: _set_opcodes must still be the known loop
        f = self.func('config.opcodes:_set_opcodes')
        src = ast.dump(f)
        for needle in ("isinstance", "setattr", "idx"):
            if needle not in src:
                raise AnalysisError('config.opcodes:_set_opcodes no longer has the modelled numbering loop')
        idx = 0
        names = {}
        opns = OpNamespace()
        for o in ops:
            if isinstance(o, tuple):
                var, idx = o
            else:
                var = o
            names[idx] = var
            setattr(opns, var.lower(), idx)
            idx += 1
        env['opcodenames'] = names
        env['op'] = opns
        env['opcodeints'] = {v: k for k, v in names.items()}


class OpNamespace:
    pass


def _assign_targets(node):
    out = []
    if isinstance(node, ast.Assign):
        for t in node.targets:
            out += _names_in_target(t)
    elif isinstance(node, (ast.AnnAssign, ast.AugAssign)):
        out += _names_in_target(node.target)
    return out


def _names_in_target(t):
    if isinstance(t, ast.Name):
        return [t.id]
    if isinstance(t, (ast.Tuple, ast.List)):
        r = []
        for e in t.elts:
            r += _names_in_target(e)
        return r
    return []


# --------------------------------------------------------------------------------------------
# Constant folding
# --------------------------------------------------------------------------------------------

class NotConst(Exception):
    pass


_BINOPS = {
    ast.Add: lambda a, b: a + b, ast.Sub: lambda a, b: a - b, ast.Mult: lambda a, b: a * b,
    ast.FloorDiv: lambda a, b: a // b, ast.Div: lambda a, b: a / b, ast.Mod: lambda a, b: a % b,
    ast.Pow: lambda a, b: a ** b, ast.LShift: lambda a, b: a << b, ast.RShift: lambda a, b: a >> b,
    ast.BitOr: lambda a, b: a | b, ast.BitAnd: lambda a, b: a & b, ast.BitXor: lambda a, b: a ^ b,
}
_CMPOPS = {
    ast.Eq: lambda a, b: a == b, ast.NotEq: lambda a, b: a != b, ast.Lt: lambda a, b: a < b,
    ast.LtE: lambda a, b: a <= b, ast.Gt: lambda a, b: a > b, ast.GtE: lambda a, b: a >= b,
    ast.In: lambda a, b: a in b, ast.NotIn: lambda a, b: a not in b,
    ast.Is: lambda a, b: a is b, ast.IsNot: lambda a, b: a is not b,
}


def fold(node, env=None):
    """Evaluate a literal-ish expression to a Python value. Raises NotConst."""
    env = env or {}
    if isinstance(node, ast.Constant):
        return node.value
    if isinstance(node, ast.Name):
        if node.id in env:
            return env[node.id]
        if node.id in ('True', 'False', 'None'):
            return {'True': True, 'False': False, 'None': None}[node.id]
        raise NotConst(node.id)
    if isinstance(node, ast.Attribute):
        base = fold(node.value, env)
        if isinstance(base, OpNamespace) and hasattr(base, node.attr):
            return getattr(base, node.attr)
        raise NotConst(ast.dump(node))
    if isinstance(node, (ast.Tuple, ast.List, ast.Set)):
        vals = [fold(e, env) for e in node.elts]
        if isinstance(node, ast.Tuple):
            return tuple(vals)
        if isinstance(node, ast.Set):
            try:
                return frozenset(vals)
            except TypeError:
                raise NotConst('unhashable set')
        return vals
    if isinstance(node, ast.Dict):
        d = {}
        for k, v in zip(node.keys, node.values):
            if k is None:
                raise NotConst('dict unpack')
            kk = fold(k, env)
            try:
                d[kk] = fold(v, env)
            except TypeError:
                raise NotConst('unhashable key')
        return d
    if isinstance(node, ast.BinOp) and type(node.op) in _BINOPS:
        a, b = fold(node.left, env), fold(node.right, env)
        try:
            if isinstance(node.op, ast.Pow) and isinstance(b, int) and abs(b) > 4096:
                raise NotConst('pow too large')
            if isinstance(node.op, ast.Mult) and isinstance(a, (bytes, str, list)) and isinstance(b, int) and b > 1 << 20:
                raise NotConst('repeat too large')
            return _BINOPS[type(node.op)](a, b)
        except NotConst:
            raise
        except Exception as e:
            raise NotConst(str(e))
    if isinstance(node, ast.UnaryOp):
        v = fold(node.operand, env)
        try:
            if isinstance(node.op, ast.USub):
                return -v
            if isinstance(node.op, ast.UAdd):
                return +v
            if isinstance(node.op, ast.Not):
                return not v
            if isinstance(node.op, ast.Invert):
                return ~v
        except Exception as e:
            raise NotConst(str(e))
    if isinstance(node, ast.Compare) and len(node.ops) == 1 and type(node.ops[0]) in _CMPOPS:
        a, b = fold(node.left, env), fold(node.comparators[0], env)
        try:
            return _CMPOPS[type(node.ops[0])](a, b)
        except Exception as e:
            raise NotConst(str(e))
    if isinstance(node, ast.Subscript):
        base = fold(node.value, env)
        try:
            if isinstance(node.slice, ast.Slice):
                lo = fold(node.slice.lower, env) if node.slice.lower else None
                hi = fold(node.slice.upper, env) if node.slice.upper else None
                st = fold(node.slice.step, env) if node.slice.step else None
                return base[lo:hi:st]
            return base[fold(node.slice, env)]
        except NotConst:
            raise
        except Exception as e:
            raise NotConst(str(e))
    if isinstance(node, ast.Call):
        fn = node.func
        if isinstance(fn, ast.Name) and fn.id in ('range', 'len', 'int', 'bytes', 'str', 'list', 'tuple', 'dict', 'min', 'max', 'chr', 'ord', 'bool', 'sorted', 'set', 'frozenset') and not node.keywords:
            args = [fold(a, env) for a in node.args]
            try:
                if fn.id == 'range':
                    r = range(*args)
                    if len(r) > 100000:
                        raise NotConst('range too large')
                    return r
                return {'len': len, 'int': int, 'bytes': bytes, 'str': str, 'list': list, 'tuple': tuple, 'dict': dict,
                        'min': min, 'max': max, 'chr': chr, 'ord': ord, 'bool': bool, 'sorted': sorted,
                        'set': frozenset, 'frozenset': frozenset}[fn.id](*args)
            except NotConst:
                raise
            except Exception as e:
                raise NotConst(str(e))
        if isinstance(fn, ast.Attribute) and fn.attr == 'fromhex' and isinstance(fn.value, ast.Name) and fn.value.id == 'bytes' and len(node.args) == 1:
            v = fold(node.args[0], env)
            try:
                return bytes.fromhex(v)
            except Exception as e:
                raise NotConst(str(e))
        if isinstance(fn, ast.Attribute) and fn.attr in ('to_bytes', 'hex', 'lower', 'upper', 'encode', 'join', 'split', 'keys', 'values', 'items') and not node.keywords:
            base = fold(fn.value, env)
            args = [fold(a, env) for a in node.args]
            try:
                r = getattr(base, fn.attr)(*args)
                if fn.attr in ('keys', 'values', 'items'):
                    r = list(r)
                return r
            except Exception as e:
                raise NotConst(str(e))
    if isinstance(node, ast.IfExp):
        return fold(node.body, env) if fold(node.test, env) else fold(node.orelse, env)
    if isinstance(node, ast.BoolOp):
        vals = [fold(v, env) for v in node.values]
        r = vals[0]
        for v in vals[1:]:
            r = (r and v) if isinstance(node.op, ast.And) else (r or v)
        return r
    if isinstance(node, ast.JoinedStr):
        raise NotConst('fstring')
    raise NotConst(type(node).__name__)


def try_fold(node, env=None, default=None):
    try:
        return fold(node, env)
    except NotConst:
        return default


# --------------------------------------------------------------------------------------------
# AST helpers
# --------------------------------------------------------------------------------------------

def unparse(node):
    try:
        return ast.unparse(node)
    except Exception:
        return ast.dump(node)


def norm(node):
    """Normalised text of a node (used for known-finding keys; never line numbers)."""
    return ' '.join(unparse(node).split())


def walk_no_nested(node):
    """ast.walk that does not descend into nested function/class definitions or lambdas."""
    todo = list(ast.iter_child_nodes(node))
    while todo:
        n = todo.pop(0)
        yield n
        if isinstance(n, (ast.FunctionDef, ast.AsyncFunctionDef, ast.ClassDef, ast.Lambda)):
            continue
        todo.extend(ast.iter_child_nodes(n))


def calls_in(node, name=None):
    """All Call nodes under node (optionally whose callee's last component is ``name``)."""
    out = []
    for n in ast.walk(node):
        if isinstance(n, ast.Call):
            if name is None or callee_name(n) == name:
                out.append(n)
    return out


def callee_name(call):
    f = call.func
    if isinstance(f, ast.Name):
        return f.id
    if isinstance(f, ast.Attribute):
        return f.attr
    return None


def dotted(node):
    """'self.inputs' for Attribute/Name chains, else None."""
    if isinstance(node, ast.Name):
        return node.id
    if isinstance(node, ast.Attribute):
        b = dotted(node.value)
        return None if b is None else b + '.' + node.attr
    return None


def kwarg(call, name, pos=None):
    for k in call.keywords:
        if k.arg == name:
            return k.value
    if pos is not None and len(call.args) > pos:
        return call.args[pos]
    return None


def func_params(fn):
    a = fn.args
    names = [x.arg for x in a.posonlyargs + a.args]
    defaults = [None] * (len(names) - len(a.defaults)) + list(a.defaults)
    out = list(zip(names, defaults))
    for x, d in zip(a.kwonlyargs, a.kw_defaults):
        out.append((x.arg, d))
    return out


# --------------------------------------------------------------------------------------------
# Obligations, findings, evidence
# --------------------------------------------------------------------------------------------

DISCHARGED, VIOLATED, UNDECIDED = 'DISCHARGED', 'VIOLATED', 'UNDECIDED'


class Finding:
    """One violated rule instance. key = (rule, qualname, detail) — never a line number."""

    def __init__(self, rule, qual, detail, loc='', why=''):
        self.rule, self.qual, self.detail, self.loc, self.why = rule, qual, ' '.join(str(detail).split()), loc, why

    def key(self):
        return (self.rule, self.qual, self.detail)

    def as_dict(self):
        return {'rule': self.rule, 'qualname': self.qual, 'detail': self.detail, 'loc': self.loc, 'why': self.why}


class Ctx:
    """Collects what one obligation inspected and found."""

    def __init__(self, repo, oid):
        self.repo = repo
        self.oid = oid
        self.findings = []
        self.inspected = []   # human-readable description of constructs examined
        self.sites = 0
        self.notes = []
        self.unsure_msgs = []

    def saw(self, what, n=1):
        self.sites += n
        if len(self.inspected) < 40:
            self.inspected.append(what)

    def violate(self, qual, detail, node=None, why=''):
        loc = self.repo.loc(qual, node) if ':' in qual else qual
        self.findings.append(Finding(self.oid, qual, detail, loc, why))

    def require(self, cond, qual, detail, node=None, why=''):
        if not cond:
            self.violate(qual, detail, node, why)
        return cond

    def floor(self, n, minimum, what):
        if n < minimum:
            raise AnalysisError('%s: matched %d %s, fewer than the %d confirmed by hand' % (self.oid, n, what, minimum))

    def undecided(self, msg):
        raise AnalysisError('%s: %s' % (self.oid, msg))

    def note(self, s):
        self.notes.append(s)

    # ---- classify-or-undecided comparison of source expressions -------------------------------------
    def unsure(self, msg):
        """deferred `undecided`: remembered, raised after the obligation ran unless it reported a finding"""
        self.unsure_msgs.append(msg)

    def match(self, qual, what, got, exp, fn=None, node=None, why=''):
        """Compare the expression ``got`` (AST node, normalised text or None) with the expected normalised text(s) ``exp``.
        equal -> True.  missing -> finding.  different and built only from *stable* names (parameters, self/cls attributes,
        module-level names, constants) -> finding: the difference cannot be a renamed local.  different and mentioning a local
        variable of ``fn`` -> unsure (exit 2 unless something else is violated): it may be the same value under another name."""
        exps = (exp,) if isinstance(exp, str) else tuple(exp)
        got_node = got if isinstance(got, ast.AST) else None
        text = norm(got) if isinstance(got, ast.AST) else got
        if text in exps:
            return True
        if text is None:
            self.violate(qual, '%s is missing (expected `%s`)' % (what, exps[0]), node, why)
            return False
        if got_node is None:
            try:
                got_node = ast.parse(text, mode='eval').body
            except SyntaxError:
                got_node = None
        locs = local_names(fn) if fn is not None else set()
        if got_node is not None and fn is not None:
            got_node = resolve_locals(got_node, fn)
            rtext = norm(got_node)
            if rtext in exps:
                return True
        free = free_names(got_node) if got_node is not None else set()
        if got_node is not None and not (free & locs):
            self.violate(qual, '%s is `%s`, expected `%s`' % (what, text, exps[0]), node if node is not None else got_node, why)
        else:
            self.unsure('%s: %s is `%s`, expected `%s`; it mentions local names %s and may be the same value' % (qual, what, text, exps[0], sorted(free & locs)))
        return False


class Obligation:
    def __init__(self, oid, fn, doc, canaries):
        self.oid, self.fn, self.doc, self.canaries = oid, fn, doc, canaries


class Property:
    def __init__(self, pid, title, explanation, assumptions):
        self.pid, self.title, self.explanation, self.assumptions = pid, title, explanation, assumptions
        self.obligations = []

    def obligation(self, oid, canaries=None):
        def deco(fn):
            self.obligations.append(Obligation(oid, fn, (fn.__doc__ or '').strip(), canaries or []))
            return fn
        return deco


class Canary:
    """In-memory mutant: ``mutate(tree)`` edits a deep copy of module ``modname``; the obligation must then
    report at least one finding that it does not report on the unmutated tree."""

    def __init__(self, name, modname, mutate):
        self.name, self.modname, self.mutate = name, modname, mutate


def load_known_findings():
    p = os.path.join(VERIF_DIR, 'known_findings.json')
    with open(p) as f:
        data = json.load(f)
    known = {}
    for e in data.get('known', []):
        known[(e['property'], e['rule'], e['qualname'], ' '.join(e['detail'].split()))] = e
    return known, data.get('fixed', [])


def run_obligation(repo, ob):
    ctx = Ctx(repo, ob.oid)
    try:
        ob.fn(ctx)
    except AnalysisError as e:
        # a violation that was already established stands; what could not be decided afterwards is kept as a note
        if not ctx.findings:
            raise
        ctx.note('not decided after the finding(s): %s' % str(e)[:200])
    if ctx.unsure_msgs and not ctx.findings:
        raise AnalysisError('%s: %s' % (ob.oid, ctx.unsure_msgs[0]))
    return ctx


_LOCALS_CACHE = {}


def free_names(node):
    """names read by an expression that are not bound inside it (comprehension targets, lambda parameters)"""
    bound = set()
    for n in ast.walk(node):
        if isinstance(n, ast.comprehension):
            bound |= set(x.id for x in ast.walk(n.target) if isinstance(x, ast.Name))
        elif isinstance(n, ast.Lambda):
            bound |= set(a.arg for a in n.args.args)
    return set(n.id for n in ast.walk(node) if isinstance(n, ast.Name) and isinstance(n.ctx, ast.Load)) - bound


def resolve_locals(node, fn, depth=4):
    """copy propagation for comparison purposes: a local that is assigned exactly once in ``fn`` (plain `name = expr`) is replaced by
    that expression, so that the classification does not depend on how a value is named"""
    defs = {}
    for n in ast.walk(fn):
        if isinstance(n, (ast.Assign, ast.AnnAssign, ast.AugAssign, ast.For, ast.comprehension, ast.With, ast.NamedExpr)):
            tg = n.targets if isinstance(n, ast.Assign) else ([n.target] if hasattr(n, 'target') else [i.optional_vars for i in getattr(n, 'items', []) if i.optional_vars is not None])
            for t in tg:
                for x in ast.walk(t):
                    if isinstance(x, ast.Name):
                        ok = isinstance(n, ast.Assign) and len(n.targets) == 1 and t is x
                        defs.setdefault(x.id, []).append(n.value if ok else None)
    locs = local_names(fn)

    class R(ast.NodeTransformer):
        def visit_Name(self, x):
            if isinstance(x.ctx, ast.Load) and x.id in locs and len(defs.get(x.id, [])) == 1 and defs[x.id][0] is not None:
                return copy.deepcopy(defs[x.id][0])
            return x
    cur = copy.deepcopy(node)
    for _ in range(depth):
        before = ast.dump(cur)
        bound_before = free_names(cur)
        cur = R().visit(cur)
        ast.fix_missing_locations(cur)
        if ast.dump(cur) == before:
            break
    return cur


def local_names(fn):
    """names bound inside ``fn`` (assignment / for / with / comprehension / except targets) that are not parameters"""
    k = id(fn)
    if k in _LOCALS_CACHE and _LOCALS_CACHE[k][0] is fn:
        return _LOCALS_CACHE[k][1]
    a = fn.args
    params = set(x.arg for x in a.posonlyargs + a.args + a.kwonlyargs)
    if a.vararg:
        params.add(a.vararg.arg)
    if a.kwarg:
        params.add(a.kwarg.arg)
    out = set()
    for n in ast.walk(fn):
        if isinstance(n, ast.Name) and isinstance(n.ctx, (ast.Store, ast.Del)):
            out.add(n.id)
        elif isinstance(n, ast.ExceptHandler) and n.name:
            out.add(n.name)
        elif isinstance(n, ast.arg) and n.arg not in params:
            out.add(n.arg)         # lambda parameters
    out -= params
    _LOCALS_CACHE[k] = (fn, out)
    return out


def run_property(prop, tier='quick', only=None, verbose=False):
    """Run all obligations; returns exit code. Writes evidence and (on violation) a replay file."""
    t0 = time.time()
    seed = int(os.environ.get('VERIF_SEED', '0') or 0)
    pid = prop.pid
    out_lines = []
    results = []
    exit_code = 0
    try:
        known, fixed = load_known_findings()
        repo = Repo()
    except AnalysisError as e:
        print('ANALYSIS-ERROR property=%s %s' % (pid, e))
        return 2
    except Exception as e:
        print('ANALYSIS-ERROR property=%s cannot start: %r' % (pid, e))
        return 2
    new_findings, known_hits, undecided = [], [], []
    canary_total = canary_flipped = 0
    canary_samples = []
    used_known = set()
    for ob in prop.obligations:
        if only and ob.oid != only:
            continue
        rec = {'obligation': ob.oid, 'doc': ob.doc}
        try:
            ctx = run_obligation(repo, ob)
            rec['sites'] = ctx.sites
            rec['inspected'] = ctx.inspected
            if ctx.notes:
                rec['notes'] = ctx.notes
            if ctx.sites == 0 and not ctx.findings:
                raise AnalysisError('%s inspected no construct (vacuous)' % ob.oid)
            fs_new, fs_known = [], []
            for f in ctx.findings:
                k = (pid,) + f.key()
                if k in known:
                    fs_known.append(f)
                    used_known.add(k)
                else:
                    fs_new.append(f)
            rec['status'] = VIOLATED if fs_new else ('KNOWN-FINDING' if fs_known else DISCHARGED)
            rec['findings'] = [f.as_dict() for f in ctx.findings]
            new_findings += fs_new
            known_hits += fs_known
            base_keys = set(f.key() for f in ctx.findings)
            if tier == 'thorough' and ob.canaries:
                crecs = []
                for c in ob.canaries:
                    canary_total += 1
                    try:
                        mrepo = repo.mutated(c.modname, c.mutate)
                        mctx = Ctx(mrepo, ob.oid)
                        try:
                            ob.fn(mctx)
                            extra = [f for f in mctx.findings if f.key() not in base_keys]
                            flipped = bool(extra)
                            how = extra[0].detail if extra else ''
                        except AnalysisError as e:
                            # an UNDECIDED outcome on a mutant is also a detection (exit 2 on that edit), but we
                            # want canaries to demonstrate VIOLATED, so it does not count as flipped
                            flipped, how = False, 'undecided: %s' % e
                    except AnalysisError as e:
                        flipped, how = False, 'mutation failed: %s' % e
                    crecs.append({'canary': c.name, 'flipped': flipped, 'reported': how})
                    if flipped:
                        canary_flipped += 1
                    else:
                        undecided.append('%s canary %s did not flip (%s)' % (ob.oid, c.name, how))
                    if len(canary_samples) < 6:
                        canary_samples.append({'obligation': ob.oid, 'canary': c.name, 'flipped': flipped, 'reported': how})
                rec['canaries'] = crecs
        except AnalysisError as e:
            rec['status'] = UNDECIDED
            rec['error'] = str(e)
            undecided.append(str(e))
        except Exception as e:
            rec['status'] = UNDECIDED
            rec['error'] = 'internal error: %r' % (e,)
            undecided.append('%s internal error: %r\n%s' % (ob.oid, e, traceback.format_exc()))
        results.append(rec)

    for f in known_hits:
        print('KNOWN-FINDING: property=%s %s %s: %s' % (pid, f.rule, f.qual, f.detail))
    # stale known findings are reported informally (they suppress nothing)
    if not only:
        for k, e in known.items():
            if k[0] == pid and k not in used_known:
                print('NOTE: known finding no longer reported (repaired or moved): %s %s %s' % (k[1], k[2], k[3]))
    replay = ''
    if new_findings:
        exit_code = 1
        outdir = os.environ.get('VERIF_OUT', os.path.join(VERIF_DIR, 'out'))
        os.makedirs(outdir, exist_ok=True)
        replay = os.path.join(outdir, '%s.violation.json' % pid)
        with open(replay, 'w') as f:
            json.dump({'property': pid, 'findings': [x.as_dict() for x in new_findings]}, f, indent=1)
        for x in new_findings:
            print('FINDING property=%s obligation=%s at %s in %s: %s%s' % (pid, x.rule, x.loc, x.qual, x.detail, (' -- ' + x.why) if x.why else ''))
        print('VIOLATION property=%s replay=%s' % (pid, replay))
    if undecided:
        for u in undecided:
            print('ANALYSIS-ERROR property=%s %s' % (pid, u))
        if exit_code == 0:
            exit_code = 2

    n_ob = len(results)
    n_dis = sum(1 for r in results if r['status'] in (DISCHARGED, 'KNOWN-FINDING'))
    nontrivial = sum(1 for r in results if r.get('sites', 0) >= 1)
    samples = []
    for r in results[:4]:
        samples.append({'obligation': r['obligation'], 'rule': r['doc'][:300], 'status': r['status'],
                        'inspected': r.get('inspected', [])[:6], 'findings': r.get('findings', [])[:3]})
    cov = {
        'explanation': prop.explanation,
        'obligations': n_ob,
        'discharged': sum(1 for r in results if r['status'] == DISCHARGED),
        'known_findings': len(known_hits),
        'evaluations': n_ob + canary_total,
        'distinct_nontrivial': nontrivial,
        'rule': 'one evaluation = one obligation (rule instance set) decided on the parsed sources of %s '
                '(plus one per in-memory canary mutant in the thorough tier); non-trivial = the obligation '
                'inspected at least one construct (call site, guard, table row, layout term)' % REPO_ROOT,
        'samples': samples,
        'files_parsed': repo.files_parsed,
        'call_sites_or_constructs_inspected': sum(r.get('sites', 0) for r in results),
        'per_obligation': results,
        'checker_cmd': 'python3 sa/check.py %s --tier %s' % (pid, tier),
        'trusted_base': ['python ast module', 'sa/core.py', 'sa/cfg.py', 'sa/sym.py'],
    }
    if tier == 'thorough':
        cov['canaries'] = canary_total
        cov['canaries_flipped'] = canary_flipped
        cov['canary_samples'] = canary_samples
    ev = {
        'property_id': pid, 'tier': tier, 'seed': seed, 'level': 'other', 'coverage': cov,
        'assumptions': prop.assumptions, 'wall_s': round(time.time() - t0, 3),
        'violations': len(new_findings),
    }
    if not only and not os.environ.get('VERIF_NO_EVIDENCE'):
        os.makedirs(os.path.join(VERIF_DIR, 'evidence'), exist_ok=True)
        with open(os.path.join(VERIF_DIR, 'evidence', '%s.json' % pid), 'w') as f:
            json.dump(ev, f, indent=1, default=str)
    print('%s tier=%s obligations=%d discharged=%d known-findings=%d violations=%d undecided=%d%s wall=%.2fs' % (
        pid, tier, n_ob, cov['discharged'], len(known_hits), len(new_findings), len(undecided),
        (' canaries=%d/%d' % (canary_flipped, canary_total)) if tier == 'thorough' else '', time.time() - t0))
    if verbose:
        for r in results:
            print(' ', r['obligation'], r['status'], r.get('sites'), r.get('error', ''))
            for i in r.get('inspected', []):
                print('      saw:', i)
    return exit_code
