"""Fixtures for the value-guarded-store rule of sa/falsy.py (parsed, never executed)."""


def bad_refresh(record, report):
    # a report of 0 never lowers the stored count
    if record.known and report['count']:
        record.count = report['count']
        record.state = 'seen'


def good_refresh(record, report):
    if record.known:
        record.count = report['count']
    if 'height' in report and report['height']:
        height = report['height']
        record.height = height
    if report['label'] is not None:
        record.label = report['label']
