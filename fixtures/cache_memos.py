"""Positive / negative fixtures for the CACHE rule (parsed, never imported or executed)."""
_shared = {}


class Fixture:
    def __init__(self):
        self._memo = {}
        self.scale = 1
        self.base = 2

    def bad_param(self, index, hardened=False):
        # looked up with the raw index, but the value depends on `hardened` as well
        if index in self._memo:
            return self._memo[index]
        if hardened:
            index |= 0x80000000
        value = index * 2
        self._memo[index] = value
        return value

    def good_param(self, index, hardened=False):
        if hardened:
            index |= 0x80000000
        if index in self._memo:
            return self._memo[index]
        value = index * 2
        self._memo[index] = value
        return value

    def bad_shared(self, x):
        # module-level memo keyed by x only while the value depends on self.scale
        v = _shared.get(x)
        if v is None:
            v = x * self.scale
            _shared[x] = v
        return v

    def good_shared(self, x):
        v = _shared.get((x, self.scale))
        if v is None:
            v = x * self.scale
            _shared[(x, self.scale)] = v
        return v


class AttrFixture:
    def __init__(self):
        self.flag = True
        self.data = b''
        self._digest = None
        self._tag = None
        self._tag_for = None

    @property
    def digest(self):
        # memo of a value that depends on self.flag
        if not self._digest:
            self._digest = (self.data, self.flag)
        return self._digest

    def flip_bad(self):
        # changes a dependency of the memo without resetting it
        self.flag = not self.flag

    def tag(self, mode):
        # validated memo: reused only for the mode it was built for
        if self._tag and self._tag_for == mode:
            return self._tag
        self._tag = (mode, self.data)
        self._tag_for = mode
        return self._tag


class AttrFixtureGood(AttrFixture):
    def flip_good(self):
        self.flag = not self.flag
        self._digest = None
