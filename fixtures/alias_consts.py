"""Fixtures for the ALIAS rule (parsed, never executed)."""

SKIP = {'wallet', 'private', 'wif'}
ORDER = ['a', 'b']


def bad_aug(include_private):
    skip = SKIP
    if include_private:
        skip -= {'private', 'wif'}
    return skip


def bad_method(x):
    order = ORDER
    order.append(x)
    return order


def good_copy(include_private):
    skip = set(SKIP)
    if include_private:
        skip -= {'private', 'wif'}
    return skip


def good_rebind(include_private):
    skip = SKIP
    if include_private:
        skip = skip - {'private', 'wif'}
    return skip
