"""Fixtures for the FALSY rule (parsed, never executed)."""


class Base:
    def __init__(self, flag=True, label='x'):
        self.flag = flag
        self.label = label

    def render_plain(self):
        # explicit falsy value passed on purpose; dispatches to the override of a subclass
        return self.render(flag=False)

    def render(self, flag=None, label=None):
        if flag is None:
            flag = self.flag
        return flag, label


class Bad(Base):
    def render(self, flag=None, label=None):
        flag = flag or self.flag
        label = label or self.label
        return super(Bad, self).render(flag, label)


class Good(Base):
    def render(self, flag=None, label=None):
        if flag is None:
            flag = self.flag
        label = label or self.label
        return super(Good, self).render(flag, label)
