"""Fixtures for the ARGSEL rule (parsed, never executed)."""


class Fixture:
    def derive(self, index=0, hardened=False, network=None):
        return index, hardened, network

    def bad(self, index, network):
        # `network` lands on the parameter `hardened`
        return self.derive(index, network)

    def good(self, index, network):
        return self.derive(index, network=network)

    def good_positional(self, index, hardened, network):
        return self.derive(index, hardened, network)


class KeyedFixture:
    def check(self, sequence, tx_locktime):
        return sequence, tx_locktime

    def bad_keyed(self, env):
        return self.check(env.get('locktime'), env['sequence'])

    def good_keyed(self, env):
        return self.check(env['sequence'], env.get('locktime'))
