"""Fixtures for the ARGSEL rule (parsed, never executed)."""


class Fixture:
    def derive(self, index=0, hardened=False, network=None):
        return index, hardened, network

    def bad(self, index, network):
        # `network` lands on the parameter `hardened`
        return self.derive(index, network)

    def good(self, index, network):
        return self.derive(index, network=network)

    def good_positional(self, index, hardened, network):
        return self.derive(index, hardened, network)
