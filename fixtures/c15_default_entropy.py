# Positive fixture for rule C15.fresh: this file is never imported or executed. It contains the defect
# pattern (entropy drawn in a default argument / at module level) and the rule must report it on every run,
# which shows that the zero-findings result on the repository is not vacuous.
import os
import random

MODULE_LEVEL_SALT = os.urandom(8)


def make_key(passphrase, seed=os.urandom(24), nonce=random.SystemRandom().randint(1, 10)):
    return passphrase, seed, nonce


def fine(passphrase, seed=None):
    if seed is None:
        seed = os.urandom(24)
    return passphrase, seed
