"""Fixtures for the LOOPFRESH rule (parsed, never executed)."""


def bad(items, seen, fetch):
    for i in items:
        if i.key not in seen:
            prev = fetch(i.key)
            seen.append(i.key)
        i.value = prev.value
    return items


def good(items, seen, fetch):
    for i in items:
        if i.key not in seen:
            prev = fetch(i.key)
        else:
            prev = seen[i.key]
        i.value = prev.value
    return items


def good_accumulator(items):
    total = 0
    for i in items:
        if i.ok:
            total += i.value
    return total
