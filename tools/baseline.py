#!/usr/bin/env python3
"""dev helper: run the pinned baseline suite in a tree (default /repo) and compare with BASELINE.json stable_pass.
usage: tools/baseline.py [tree] [tag]"""
import json, subprocess, sys, xml.etree.ElementTree as ET
tree = sys.argv[1] if len(sys.argv) > 1 else '/repo'
tag = sys.argv[2] if len(sys.argv) > 2 else 'run'
junit = '/tmp/baseline_%s.junit.xml' % tag
subprocess.run('cd %s && /venv/bin/python -m pytest -ra -q -p no:cacheprovider --timeout=900 --continue-on-collection-errors --junitxml=%s > /tmp/baseline_%s.log 2>&1' % (tree, junit, tag), shell=True)
want = set(json.load(open('/root/.vp/BASELINE.json'))['stable_pass'])
ok = set()
for tc in ET.parse(junit).getroot().iter('testcase'):
    if not any(c.tag in ('failure', 'error', 'skipped') for c in tc):
        ok.add('%s::%s' % (tc.get('classname'), tc.get('name')))
missing = sorted(want - ok)
print('baseline %d, passing now %d, baseline tests not passing: %d' % (len(want), len(want & ok), len(missing)))
for m in missing[:40]:
    print('  ', m)
sys.exit(1 if missing else 0)
