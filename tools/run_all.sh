#!/bin/bash
# run every property check (thorough tier) in parallel without touching evidence; prints one summary line per property
cd "$(dirname "$0")/.."
for i in $(seq -w 1 20); do echo C$i; done | VERIF_NO_EVIDENCE=${VERIF_NO_EVIDENCE-1} xargs -P 10 -I{} sh -c 'python3 sa/check.py {} --tier ${TIER:-thorough} 2>&1 | grep -E "^(C[0-9]+ tier|VIOLATION|ANALYSIS-ERROR|FINDING)" | sed "s/^/{}: /"' | sort
