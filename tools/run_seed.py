#!/usr/bin/env python3
"""Run the implemented checks against a seeded change on a scratch copy of /repo (development tool).

  tools/run_seed.py <seed-dir> [--tier quick|thorough]      e.g. tools/run_seed.py seeded/C03-1
  tools/run_seed.py --all                                   every directory under /verif/seeded

Prints, per seed, which property checks report a VIOLATION (exit 1), which stay quiet and which end in ANALYSIS-ERROR.
Never touches /repo: the tree is copied to /tmp/sc/<name>, patched there and removed afterwards.
"""
import glob
import json
import os
import shutil
import subprocess
import sys

ROOT = os.path.dirname(os.path.dirname(os.path.abspath(__file__)))


def props():
    return sorted(os.path.basename(p)[:-3].upper() for p in glob.glob(os.path.join(ROOT, 'sa', 'props', 'c[0-9]*.py')))


def run_one(seed, tier='quick', only=None):
    name = os.path.basename(seed.rstrip('/'))
    sc = '/tmp/sc/%s' % name
    shutil.rmtree(sc, ignore_errors=True)
    os.makedirs(sc)
    shutil.copytree('/repo/bitcoinlib', sc + '/bitcoinlib', ignore=shutil.ignore_patterns('__pycache__'))
    p = subprocess.run(['git', 'apply', os.path.abspath(os.path.join(seed, 'patch.diff'))], cwd=sc, stdout=subprocess.PIPE, stderr=subprocess.STDOUT)
    if p.returncode:
        shutil.rmtree(sc, ignore_errors=True)
        return name, None, 'patch does not apply: ' + p.stdout.decode()[-200:]
    env = dict(os.environ, VERIF_REPO=sc, VERIF_NO_EVIDENCE='1', VERIF_OUT='/tmp/sc/out_' + name)
    res = {}
    lines = {}
    for pid in (only or props()):
        q = subprocess.run([sys.executable, os.path.join(ROOT, 'sa', 'check.py'), pid, '--tier', tier], cwd=ROOT, env=env, stdout=subprocess.PIPE, stderr=subprocess.STDOUT)
        res[pid] = q.returncode
        out = q.stdout.decode(errors='replace')
        lines[pid] = [l for l in out.split('\n') if l.startswith(('FINDING', 'ANALYSIS-ERROR'))][:4]
    shutil.rmtree(sc, ignore_errors=True)
    shutil.rmtree('/tmp/sc/out_' + name, ignore_errors=True)
    return name, res, lines


def main():
    tier = 'quick'
    args = [a for a in sys.argv[1:]]
    if '--tier' in args:
        tier = args[args.index('--tier') + 1]
        del args[args.index('--tier'):args.index('--tier') + 2]
    seeds = sorted(glob.glob(os.path.join(ROOT, 'seeded', '*'))) if '--all' in args else [a for a in args if not a.startswith('--')]
    summary = {}
    for s in seeds:
        if not os.path.exists(os.path.join(s, 'patch.diff')):
            continue
        name, res, lines = run_one(s, tier)
        if res is None:
            print(name, 'ERROR', lines)
            continue
        fired = [p for p, rc in res.items() if rc == 1]
        err = [p for p, rc in res.items() if rc == 2]
        target = name.split('-')[0]
        print('%-8s caught-by=%s analysis-error=%s %s' % (name, fired, err, '' if fired or err else 'MISSED'))
        for p in fired + err:
            for l in lines[p][:2]:
                print('      ', l[:260])
        summary[name] = {'caught_by': fired, 'analysis_error': err}
    json.dump(summary, open('/tmp/sc/summary.json', 'w'), indent=1)


if __name__ == '__main__':
    main()
