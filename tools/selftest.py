#!/usr/bin/env python3
"""Self-test of the checkers (development tool, not a registered check).

  tools/selftest.py reformat      every check on a scratch copy of /repo whose sources were re-printed with ast.unparse
                                  (comments, quotes, line joins, blank lines change; behaviour does not): all must exit 0
  tools/selftest.py rename        every check on a scratch copy in which every local variable of every function is renamed: no check may
                                  exit 1 (exit 2 = undecided is tolerated and listed)
  tools/selftest.py reverts       for every `fix:` commit of /repo: scratch copy with that commit reverted; the property the
                                  fix is recorded under must report a VIOLATION again
  tools/selftest.py seeds-renamed [k] [glob]   every seeded change (matching glob) with every k-th local renamed on top: still reported
  tools/selftest.py seeds         = tools/run_seed.py --all

Scratch copies live under /tmp/sc and are removed afterwards. /repo is never modified.
"""
import ast
import glob
import json
import os
import re
import shutil
import subprocess
import sys

ROOT = os.path.dirname(os.path.dirname(os.path.abspath(__file__)))


def props():
    return sorted(os.path.basename(p)[:-3].upper() for p in glob.glob(os.path.join(ROOT, 'sa', 'props', 'c[0-9]*.py')))


def run_checks(sc, only=None, tier='quick'):
    env = dict(os.environ, VERIF_REPO=sc, VERIF_NO_EVIDENCE='1', VERIF_OUT='/tmp/sc/out_selftest')
    res = {}
    for pid in (only or props()):
        q = subprocess.run([sys.executable, os.path.join(ROOT, 'sa', 'check.py'), pid, '--tier', tier], cwd=ROOT, env=env, stdout=subprocess.PIPE, stderr=subprocess.STDOUT)
        out = q.stdout.decode(errors='replace')
        res[pid] = (q.returncode, [l for l in out.split('\n') if l.startswith(('FINDING', 'ANALYSIS-ERROR'))][:3])
    shutil.rmtree('/tmp/sc/out_selftest', ignore_errors=True)
    return res


def copy_repo(name):
    sc = '/tmp/sc/%s' % name
    shutil.rmtree(sc, ignore_errors=True)
    os.makedirs(sc)
    shutil.copytree('/repo/bitcoinlib', sc + '/bitcoinlib', ignore=shutil.ignore_patterns('__pycache__'))
    return sc


def reformat():
    sc = copy_repo('reformat')
    n = 0
    for dp, dn, fn in os.walk(sc + '/bitcoinlib'):
        for f in fn:
            if f.endswith('.py'):
                p = os.path.join(dp, f)
                src = open(p, encoding='utf-8').read()
                open(p, 'w', encoding='utf-8').write(ast.unparse(ast.parse(src)) + '\n')
                n += 1
    res = run_checks(sc)
    bad = {k: v for k, v in res.items() if v[0] != 0}
    print('reformatted %d files; checks run: %d; not silent: %d' % (n, len(res), len(bad)))
    for k, v in bad.items():
        print(' ', k, 'exit', v[0])
        for l in v[1]:
            print('     ', l[:260])
    shutil.rmtree(sc, ignore_errors=True)
    return 1 if bad else 0


def _rename_locals_in(tree, every=1):
    """behaviour-preserving: every local variable of every outermost function gets the suffix _v"""
    class Outer(ast.NodeVisitor):
        def handle(self, f):
            params = set()
            stored = set()
            banned = set()
            for n in ast.walk(f):
                if isinstance(n, (ast.FunctionDef, ast.AsyncFunctionDef, ast.Lambda)):
                    a = n.args
                    params |= set(x.arg for x in a.posonlyargs + a.args + a.kwonlyargs)
                    if a.vararg:
                        params.add(a.vararg.arg)
                    if a.kwarg:
                        params.add(a.kwarg.arg)
                    if not isinstance(n, ast.Lambda) and n is not f:
                        banned.add(n.name)
                elif isinstance(n, ast.ClassDef):
                    banned.add(n.name)
                elif isinstance(n, (ast.Global, ast.Nonlocal)):
                    banned |= set(n.names)
                elif isinstance(n, ast.Name) and isinstance(n.ctx, (ast.Store, ast.Del)):
                    stored.add(n.id)
                elif isinstance(n, ast.ExceptHandler) and n.name:
                    stored.add(n.name)
                elif isinstance(n, (ast.Import, ast.ImportFrom)):
                    banned |= set((al.asname or al.name).split('.')[0] for al in n.names)
            ren = stored - params - banned
            if every > 1:
                ren = set(x for i, x in enumerate(sorted(ren)) if i % every == 0)
            for n in ast.walk(f):
                if isinstance(n, ast.Name) and n.id in ren:
                    n.id = n.id + '_v'
                elif isinstance(n, ast.ExceptHandler) and n.name in ren:
                    n.name = n.name + '_v'
            return len(ren)

        def __init__(self):
            self.n = 0

        def visit_FunctionDef(self, f):
            self.n += self.handle(f)      # do not descend: nested functions were handled with their outer function
        visit_AsyncFunctionDef = visit_FunctionDef
    o = Outer()
    o.visit(tree)
    return o.n


def rename_tree(sc, every=1):
    n = 0
    for dp, dn, fn in os.walk(sc + '/bitcoinlib'):
        for f in fn:
            if f.endswith('.py'):
                p = os.path.join(dp, f)
                tree = ast.parse(open(p, encoding='utf-8').read())
                n += _rename_locals_in(tree, every)
                open(p, 'w', encoding='utf-8').write(ast.unparse(tree) + '\n')
    return n


def seeds_renamed(every=1, pattern='*'):
    """every seeded change with all (or every k-th) local renamed on top: the checks that report it on the plain copy must still report it"""
    rc = 0
    for d in sorted(glob.glob(os.path.join(ROOT, 'seeded', pattern))):
        name = os.path.basename(d)
        if os.path.exists(os.path.join(d, 'meta.json')) and 'superseded_by' in json.load(open(os.path.join(d, 'meta.json'))):
            continue
        sc = copy_repo('sr_' + name.replace('-', '_'))
        p = subprocess.run(['git', 'apply', os.path.join(d, 'patch.diff')], cwd=sc, stdout=subprocess.PIPE, stderr=subprocess.STDOUT)
        if p.returncode:
            print(name, 'patch does not apply')
            shutil.rmtree(sc, ignore_errors=True)
            continue
        plain = run_checks(sc)
        want = sorted(k for k, v in plain.items() if v[0] == 1)
        rename_tree(sc, every)
        res = run_checks(sc, only=want)
        got = sorted(k for k, v in res.items() if v[0] == 1)
        extra = ''
        if got != want:
            rc = 1
            extra = '  <-- LOST after renaming: %s' % [(k, res[k][0]) for k in want if k not in got]
        print('%-8s plain=%s renamed=%s%s' % (name, want, got, extra))
        shutil.rmtree(sc, ignore_errors=True)
    return rc


def rename(every=1):
    sc = copy_repo('rename')
    n = 0
    for dp, dn, fn in os.walk(sc + '/bitcoinlib'):
        for f in fn:
            if f.endswith('.py'):
                p = os.path.join(dp, f)
                tree = ast.parse(open(p, encoding='utf-8').read())
                n += _rename_locals_in(tree, every)
                open(p, 'w', encoding='utf-8').write(ast.unparse(tree) + '\n')
    # the renamed package must still compile
    import compileall
    ok = compileall.compile_dir(sc + '/bitcoinlib', quiet=2, force=True)
    res = run_checks(sc)
    alarms = {k: v for k, v in res.items() if v[0] == 1}
    undec = {k: v for k, v in res.items() if v[0] == 2}
    print('renamed %d local variables (compiles: %s); checks: %d silent, %d undecided (exit 2), %d FALSE ALARMS (exit 1)' % (n, bool(ok), len(res) - len(alarms) - len(undec), len(undec), len(alarms)))
    for k, v in list(alarms.items()) + list(undec.items()):
        print(' ', k, 'exit', v[0])
        for l in v[1]:
            print('     ', l[:300])
    if os.environ.get('KEEP_SC') != '1':
        shutil.rmtree(sc, ignore_errors=True)
    return 1 if alarms else 0


def reverts():
    kf = json.load(open(os.path.join(ROOT, 'known_findings.json')))
    log = subprocess.check_output(['git', '-C', '/repo', 'log', '--format=%h %s']).decode().split('\n')
    fixes = [(l.split(' ', 1)[0], l.split(' ', 1)[1]) for l in log if ' fix:' in ' ' + l]
    rc = 0
    for h, subj in fixes:
        recs = [f for f in kf['fixed'] if h[:7] in f]
        pids = sorted(set(re.findall(r'property=(C\d\d)', ' '.join(recs))))
        sc = copy_repo('revert_' + h)
        diff = subprocess.check_output(['git', '-C', '/repo', 'show', h, '--format=', '--', 'bitcoinlib'])
        p = subprocess.run(['git', 'apply', '-R', '--whitespace=nowarn', '-'], cwd=sc, input=diff, stdout=subprocess.PIPE, stderr=subprocess.STDOUT)
        if p.returncode:
            print('%s %-70s revert does not apply alone (later fixes touch the same lines)' % (h, subj[:70]))
            shutil.rmtree(sc, ignore_errors=True)
            continue
        if not pids:
            print('%s %-70s NOT RECORDED in known_findings.json' % (h, subj[:70]))
            rc = 1
            shutil.rmtree(sc, ignore_errors=True)
            continue
        res = run_checks(sc, only=pids)
        fired = [k for k, v in res.items() if v[0] == 1]
        print('%s %-70s recorded under %s; fires again: %s' % (h, subj[:70], pids, fired or 'NO'))
        if not fired:
            rc = 1
        shutil.rmtree(sc, ignore_errors=True)
    return rc


if __name__ == '__main__':
    what = sys.argv[1] if len(sys.argv) > 1 else 'reformat'
    if what == 'reformat':
        sys.exit(reformat())
    if what == 'rename':
        sys.exit(rename(int(sys.argv[2]) if len(sys.argv) > 2 else 1))
    if what == 'seeds-renamed':
        sys.exit(seeds_renamed(int(sys.argv[2]) if len(sys.argv) > 2 else 1, sys.argv[3] if len(sys.argv) > 3 else '*'))
    if what == 'reverts':
        sys.exit(reverts())
    if what == 'seeds':
        sys.exit(subprocess.call([sys.executable, os.path.join(ROOT, 'tools', 'run_seed.py'), '--all']))
