#!/usr/bin/env python3
"""Self-test of the checkers (development tool, not a registered check).

  tools/selftest.py reformat      every check on a scratch copy of /repo whose sources were re-printed with ast.unparse
                                  (comments, quotes, line joins, blank lines change; behaviour does not): all must exit 0
  tools/selftest.py reverts       for every `fix:` commit of /repo: scratch copy with that commit reverted; the property the
                                  fix is recorded under must report a VIOLATION again
  tools/selftest.py seeds         = tools/run_seed.py --all

Scratch copies live under /tmp/sc and are removed afterwards. /repo is never modified.
"""
import ast
import glob
import json
import os
import re
import shutil
import subprocess
import sys

ROOT = os.path.dirname(os.path.dirname(os.path.abspath(__file__)))


def props():
    return sorted(os.path.basename(p)[:-3].upper() for p in glob.glob(os.path.join(ROOT, 'sa', 'props', 'c[0-9]*.py')))


def run_checks(sc, only=None, tier='quick'):
    env = dict(os.environ, VERIF_REPO=sc, VERIF_NO_EVIDENCE='1', VERIF_OUT='/tmp/sc/out_selftest')
    res = {}
    for pid in (only or props()):
        q = subprocess.run([sys.executable, os.path.join(ROOT, 'sa', 'check.py'), pid, '--tier', tier], cwd=ROOT, env=env, stdout=subprocess.PIPE, stderr=subprocess.STDOUT)
        out = q.stdout.decode(errors='replace')
        res[pid] = (q.returncode, [l for l in out.split('\n') if l.startswith(('FINDING', 'ANALYSIS-ERROR'))][:3])
    shutil.rmtree('/tmp/sc/out_selftest', ignore_errors=True)
    return res


def copy_repo(name):
    sc = '/tmp/sc/%s' % name
    shutil.rmtree(sc, ignore_errors=True)
    os.makedirs(sc)
    shutil.copytree('/repo/bitcoinlib', sc + '/bitcoinlib', ignore=shutil.ignore_patterns('__pycache__'))
    return sc


def reformat():
    sc = copy_repo('reformat')
    n = 0
    for dp, dn, fn in os.walk(sc + '/bitcoinlib'):
        for f in fn:
            if f.endswith('.py'):
                p = os.path.join(dp, f)
                src = open(p, encoding='utf-8').read()
                open(p, 'w', encoding='utf-8').write(ast.unparse(ast.parse(src)) + '\n')
                n += 1
    res = run_checks(sc)
    bad = {k: v for k, v in res.items() if v[0] != 0}
    print('reformatted %d files; checks run: %d; not silent: %d' % (n, len(res), len(bad)))
    for k, v in bad.items():
        print(' ', k, 'exit', v[0])
        for l in v[1]:
            print('     ', l[:260])
    shutil.rmtree(sc, ignore_errors=True)
    return 1 if bad else 0


def reverts():
    kf = json.load(open(os.path.join(ROOT, 'known_findings.json')))
    log = subprocess.check_output(['git', '-C', '/repo', 'log', '--format=%h %s']).decode().split('\n')
    fixes = [(l.split(' ', 1)[0], l.split(' ', 1)[1]) for l in log if ' fix:' in ' ' + l]
    rc = 0
    for h, subj in fixes:
        recs = [f for f in kf['fixed'] if h[:7] in f]
        pids = sorted(set(re.findall(r'property=(C\d\d)', ' '.join(recs))))
        sc = copy_repo('revert_' + h)
        diff = subprocess.check_output(['git', '-C', '/repo', 'show', h, '--format=', '--', 'bitcoinlib'])
        p = subprocess.run(['git', 'apply', '-R', '--whitespace=nowarn', '-'], cwd=sc, input=diff, stdout=subprocess.PIPE, stderr=subprocess.STDOUT)
        if p.returncode:
            print('%s %-70s revert does not apply alone (later fixes touch the same lines)' % (h, subj[:70]))
            shutil.rmtree(sc, ignore_errors=True)
            continue
        if not pids:
            print('%s %-70s NOT RECORDED in known_findings.json' % (h, subj[:70]))
            rc = 1
            shutil.rmtree(sc, ignore_errors=True)
            continue
        res = run_checks(sc, only=pids)
        fired = [k for k, v in res.items() if v[0] == 1]
        print('%s %-70s recorded under %s; fires again: %s' % (h, subj[:70], pids, fired or 'NO'))
        if not fired:
            rc = 1
        shutil.rmtree(sc, ignore_errors=True)
    return rc


if __name__ == '__main__':
    what = sys.argv[1] if len(sys.argv) > 1 else 'reformat'
    if what == 'reformat':
        sys.exit(reformat())
    if what == 'reverts':
        sys.exit(reverts())
    if what == 'seeds':
        sys.exit(subprocess.call([sys.executable, os.path.join(ROOT, 'tools', 'run_seed.py'), '--all']))
