#!/usr/bin/env python3
"""Confirm one seeded change independently (development tool, not a check).

  tools/confirm_seed.py <PID> <k> [--no-suite]

Takes /tmp/seed_out/<PID>/<k>/{patch.diff,demo.py,meta.json}, creates a scratch git worktree of /repo under
/tmp/cf/, and verifies: demo passes on the clean tree; patch applies; demo fails with the patch; all 536 baseline
tests still pass with the patch. On success copies the seed to /verif/seeded/<PID>-<k>/ with a meta.json that
records what was run. The worktree is removed afterwards.
"""
import json
import os
import shutil
import subprocess
import sys
import xml.etree.ElementTree as ET

pid, k = sys.argv[1], sys.argv[2]
no_suite = '--no-suite' in sys.argv
src = '/tmp/seed_out/%s/%s' % (pid, k)
name = '%s-%s' % (pid, k)
wt = '/tmp/cf/%s' % name.replace('-', '_')
bcl = '/tmp/cf_bcl/%s' % name
os.makedirs('/tmp/cf', exist_ok=True)
os.makedirs(bcl, exist_ok=True)
env = dict(os.environ, BCL_DATA_DIR=bcl)
log = []


def run(cmd, cwd=None, timeout=1800):
    p = subprocess.run(cmd, shell=True, cwd=cwd, env=env, stdout=subprocess.PIPE, stderr=subprocess.STDOUT, timeout=timeout)
    return p.returncode, p.stdout.decode(errors='replace')


def finish(ok, why):
    run('git -C /repo worktree remove --force %s' % wt)
    shutil.rmtree(bcl, ignore_errors=True)
    print(name, 'CONFIRMED' if ok else 'REJECTED', why)
    out = '/verif/seeded/%s' % name
    if ok:
        os.makedirs(out, exist_ok=True)
        shutil.copy(src + '/patch.diff', out + '/patch.diff')
        shutil.copy(src + '/demo.py', out + '/demo.py')
        try:
            agent_meta = json.load(open(src + '/meta.json'))
        except Exception:
            agent_meta = {}
        meta = {'property': pid, 'summary': agent_meta.get('summary', ''), 'needs': agent_meta.get('needs', ''),
                'files': agent_meta.get('files', []), 'confirmed_by_me': log, 'author_ran': agent_meta.get('ran', [])}
        json.dump(meta, open(out + '/meta.json', 'w'), indent=1)
    else:
        os.makedirs('/tmp/seed_rejected', exist_ok=True)
        open('/tmp/seed_rejected/%s.txt' % name, 'w').write(why + '\n' + '\n'.join(log))
    sys.exit(0 if ok else 1)


if not os.path.exists(src + '/patch.diff') or not os.path.exists(src + '/demo.py'):
    print(name, 'MISSING files')
    sys.exit(2)
run('git -C /repo worktree remove --force %s' % wt)
rc, out = run('git -C /repo worktree add --detach %s HEAD' % wt)
if rc:
    print(out)
    sys.exit(2)
shutil.copy(src + '/demo.py', wt + '/_demo.py')
rc, out = run('/venv/bin/python _demo.py', cwd=wt, timeout=900)
log.append('clean tree: demo.py exit %d (%s)' % (rc, out.strip().split('\n')[-1][:120]))
if rc != 0:
    finish(False, 'demo does not pass on the clean tree: ' + out[-400:])
rc, out = run('git apply %s/patch.diff' % src, cwd=wt)
if rc:
    finish(False, 'patch does not apply: ' + out[-300:])
log.append('git apply patch.diff: ok')
rc, out = run('/venv/bin/python -c "import bitcoinlib, bitcoinlib.wallets, bitcoinlib.services.services"', cwd=wt)
if rc:
    finish(False, 'package does not import with patch: ' + out[-300:])
rc, out = run('/venv/bin/python _demo.py', cwd=wt, timeout=900)
log.append('patched tree: demo.py exit %d (%s)' % (rc, out.strip().split('\n')[-1][:160]))
if rc == 0:
    finish(False, 'demo still passes with the patch')
if not no_suite:
    os.remove(wt + '/_demo.py')
    rc, out = run('/venv/bin/python -m pytest -q -p no:cacheprovider --timeout=900 --continue-on-collection-errors --junitxml=/tmp/cf/%s.junit.xml' % name, cwd=wt, timeout=3600)
    ok = set()
    try:
        for tc in ET.parse('/tmp/cf/%s.junit.xml' % name).iter('testcase'):
            if not [c for c in tc if c.tag in ('failure', 'error', 'skipped')]:
                cn = tc.get('classname').split('.')
                ok.add('/'.join(cn[:-1]) + '.py::' + cn[-1] + '::' + tc.get('name'))
    except Exception as e:
        finish(False, 'no junit result: %r %s' % (e, out[-300:]))
    base = [l.strip() for l in open('/tmp/baseline_pass.txt') if l.strip()]
    missing = [b for b in base if b not in ok]
    log.append('patched tree: full suite, %d of %d baseline tests pass' % (len(base) - len(missing), len(base)))
    os.remove('/tmp/cf/%s.junit.xml' % name)
    if missing:
        finish(False, 'baseline tests fail with the patch: %s' % missing[:5])
finish(True, '; '.join(log))
