#!/usr/bin/env python3
"""Regenerate sa/ref_locals.json (the reference local-variable names the rules are written against) from /repo.
Run after a `fix:` commit that introduces or renames a local variable, then re-run all checks."""
import json
import os
import sys

ROOT = os.path.dirname(os.path.dirname(os.path.abspath(__file__)))
sys.path.insert(0, ROOT)
os.environ['VERIF_NO_ALIGN'] = '1'
from sa import core, align  # noqa

repo = core.Repo()
ref = {}
for name, m in sorted(repo.modules.items()):
    for q, f in sorted(m.functions.items()):
        loc = align.ordered_locals(f)
        if loc:
            ref['%s:%s' % (name, q)] = loc
json.dump(ref, open(align.REF_PATH, 'w'), indent=0, sort_keys=True)
print(len(ref), 'functions,', sum(len(v) for v in ref.values()), 'locals')
