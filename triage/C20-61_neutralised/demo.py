#!/usr/bin/env python
# Block queries for two networks that share one cache database (the default: a single cache for all networks).
# Two small fake chains, 'bitcoin' and 'litecoin', are served by local fake providers (one for litecoin, two for
# bitcoin, some of them down for parts of the run). Both chains have blocks at the same heights, as real chains
# do. The chains are the tables below; expected answers are taken from those tables:
#   - getblock(height) on a network must return the block of THAT network's chain at that height (hash, previous
#     block, merkle root and transaction ids), answered by a provider of that network or by the cached copy of
#     such an answer;
#   - when all providers of a network are down and the block of that network was never cached, the query must
#     fail (False / ServiceError), it may not return a block.
# Offline, deterministic; providers are local fakes registered through providers.json.
import hashlib
import json
import os
import shutil
import sys
import tempfile
import types
from datetime import datetime, timezone

base_dir = os.environ.get('BCL_DATA_DIR') or tempfile.gettempdir()
os.makedirs(base_dir, exist_ok=True)
data_dir = tempfile.mkdtemp(prefix='c20_demo61_', dir=base_dir)
os.environ['BCL_DATA_DIR'] = data_dir
sys.path.insert(0, os.getcwd())

import bitcoinlib.services as bcl_services
from bitcoinlib.services.services import Service, ServiceError
from bitcoinlib.transactions import Transaction
from bitcoinlib.keys import Key

PROVIDERS = [('ltc_a', 'litecoin', 10), ('btc_a', 'bitcoin', 20), ('btc_b', 'bitcoin', 10)]
BLOCKCOUNT = {'bitcoin': 5000, 'litecoin': 9000}
HEIGHTS = [3000, 3001, 3002, 3003]
N_TXS = {'bitcoin': 3, 'litecoin': 2}
DOWN = set()
ASKED = []


def h32(*parts):
    return hashlib.sha256(('/'.join(str(p) for p in parts)).encode()).hexdigest()


ADDRS = dict((nw, [Key(7001 + i, network=nw).address() for i in range(3)]) for nw in BLOCKCOUNT)


def chain_block(network, height):
    """Block of the fake chain of this network at this height: header fields and transaction ids"""
    return {
        'block_hash': '0000' + h32(network, 'block', height)[4:],
        'prev_block': '0000' + h32(network, 'block', height - 1)[4:],
        'merkle_root': h32(network, 'merkle', height),
        'time': 1600000000 + height * (600 if network == 'bitcoin' else 150),
        'bits': 0x1a01aa3d if network == 'bitcoin' else 0x1b012dcd,
        'nonce': int(h32(network, 'nonce', height)[:7], 16) + 1,
        'version': 2,
        'txids': [h32(network, 'tx', height, n) for n in range(N_TXS[network])],
    }


def make_tx(network, height, n):
    payer, receiver = ADDRS[network][n % 3], ADDRS[network][(n + 1) % 3]
    value = 50000 + 1000 * n + height
    t = Transaction(network=network, txid=h32(network, 'tx', height, n), block_height=height,
                    confirmations=BLOCKCOUNT[network] - height + 1,
                    date=datetime.fromtimestamp(chain_block(network, height)['time'], timezone.utc),
                    status='confirmed', fee=500)
    t.add_input(prev_txid=h32(network, 'prev', height, n), output_n=0, value=value + 500, address=payer,
                unlocking_script=b'', strict=False)
    t.add_output(value, receiver, strict=False)
    t.update_totals()
    return t


class ProviderDown(Exception):
    pass


class FakeClient(object):
    def __init__(self, network, base_url, denominator, *args):
        self.name = base_url
        self.network_name = [p[1] for p in PROVIDERS if p[0] == base_url][0]

    def blockcount(self):
        return BLOCKCOUNT[self.network_name]

    def getblock(self, blockid, parse_transactions, page, limit):
        ASKED.append(self.name)
        if self.name in DOWN:
            raise ProviderDown("%s is down" % self.name)
        nw = self.network_name
        if isinstance(blockid, int):
            height = blockid
        else:
            height = [h for h in HEIGHTS if chain_block(nw, h)['block_hash'] == blockid][0]
        cb = chain_block(nw, height)
        txids = cb['txids'][(page - 1) * limit:page * limit]
        if parse_transactions:
            txs = [make_tx(nw, height, cb['txids'].index(txid)) for txid in txids]
        else:
            txs = txids
        return {'bits': cb['bits'], 'depth': BLOCKCOUNT[nw] - height + 1, 'block_hash': cb['block_hash'],
                'height': height, 'merkle_root': cb['merkle_root'], 'nonce': cb['nonce'],
                'prev_block': cb['prev_block'], 'time': cb['time'], 'tx_count': len(cb['txids']), 'txs': txs,
                'version': cb['version'], 'page': page, 'pages': 1, 'limit': limit}


bcl_services.fakeprovider = types.SimpleNamespace(FakeClient=FakeClient)
provider_defs = {}
for pname, pnetwork, priority in PROVIDERS:
    provider_defs[pname] = {
        "provider": "fakeprovider", "network": pnetwork, "client_class": "FakeClient", "provider_coin_id": "",
        "url": pname, "api_key": "", "priority": priority, "denominator": 100000000,
        "network_overrides": None, "timeout": 0}
with open(os.path.join(data_dir, 'providers.json'), 'w') as f:
    json.dump(provider_defs, f)

failures = []
n_checks = [0]


def describe(block):
    return "block %s... of network %s with %d transaction(s)" % \
           (block.block_hash.hex()[:16], block.network.name, len(block.transactions))


def check_block(label, srv, network, height, down=(), must_fail=False):
    n_checks[0] += 1
    DOWN.clear()
    DOWN.update(down)
    del ASKED[:]
    label = "%s: %s getblock(%d)%s" % (label, network, height,
                                       '' if not down else ' with %s down' % '/'.join(sorted(down)))
    try:
        block = srv.getblock(height)
    except ServiceError:
        block = False
    finally:
        DOWN.clear()
    if must_fail:
        if block:
            failures.append("%s: all providers of %s were down and its block was never cached, the query had to "
                            "fail but returned %s" % (label, network, describe(block)))
        return
    if not block:
        failures.append("%s: failed although a provider of %s was up" % (label, network))
        return
    want = chain_block(network, height)
    txids = [t if isinstance(t, str) else t.txid for t in block.transactions]
    problems = []
    if block.block_hash.hex() != want['block_hash']:
        problems.append("block hash %s..., the %s chain has %s... at this height" %
                        (block.block_hash.hex()[:16], network, want['block_hash'][:16]))
    if block.prev_block.hex() != want['prev_block'] or block.merkle_root.hex() != want['merkle_root']:
        problems.append("previous block / merkle root are not those of the %s chain" % network)
    if block.network.name != network:
        problems.append("block is labelled network %s" % block.network.name)
    if txids != want['txids']:
        problems.append("transaction ids %s, the %s block has %s" %
                        ([t[:8] for t in txids], network, [t[:8] for t in want['txids']]))
    if block.tx_count != len(want['txids']):
        problems.append("tx_count %r instead of %d" % (block.tx_count, len(want['txids'])))
    if problems:
        failures.append("%s: %s (providers asked: %s)" % (label, '; '.join(problems), ASKED or 'none, from cache'))


try:
    cache_uri = 'sqlite:///' + os.path.join(data_dir, 'cache.sqlite')
    ltc = Service(network='litecoin', cache_uri=cache_uri)
    btc = Service(network='bitcoin', cache_uri=cache_uri)

    # 1. Litecoin block first, then the bitcoin block at the same height (first bitcoin provider down)
    check_block("litecoin first", ltc, 'litecoin', 3000)
    check_block("litecoin first", btc, 'bitcoin', 3000, down={'btc_a'})

    # 2. Litecoin block cached, then the bitcoin block at that height is asked while all bitcoin providers are down
    check_block("bitcoin providers down", ltc, 'litecoin', 3001)
    check_block("bitcoin providers down", btc, 'bitcoin', 3001, down={'btc_a', 'btc_b'}, must_fail=True)

    # 3. The other way round: bitcoin block first, then litecoin at the same height
    check_block("bitcoin first", btc, 'bitcoin', 3002)
    check_block("bitcoin first", ltc, 'litecoin', 3002)

    # 4. A height only asked on one network: second query is served from the cache, also with all providers down
    check_block("single network", btc, 'bitcoin', 3003, down={'btc_a'})
    check_block("single network, cached", btc, 'bitcoin', 3003, down={'btc_a', 'btc_b'})

    # 5. New service objects on the same cache database
    btc2 = Service(network='bitcoin', cache_uri=cache_uri)
    check_block("new service object, cached", btc2, 'bitcoin', 3003)
finally:
    shutil.rmtree(data_dir, ignore_errors=True)

if failures:
    print("FAIL: %d of %d block queries returned something else than the block of the asked network" %
          (len(failures), n_checks[0]))
    for line in failures[:12]:
        print("  " + line)
    sys.exit(1)
print("PASS: %d block queries on two networks sharing a cache each returned the block of the asked network's "
      "chain or failed correctly" % n_checks[0])
sys.exit(0)
