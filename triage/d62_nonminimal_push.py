"""D62 witness (documentation only, never run by a check): a well-formed legacy transaction whose scriptSig uses a non-minimal push does
not round-trip through Transaction.parse(...).raw().   Run:  cd /repo && /venv/bin/python /verif/triage/d62_nonminimal_push.py"""
from bitcoinlib.transactions import Transaction
from bitcoinlib.keys import Key
from bitcoinlib.encoding import varstr


def nonminimal(us, skip):
    # re-encode the first signature push (after `skip` leading bytes) as OP_PUSHDATA1 <len> <sig>
    l = us[skip]
    return us[:skip] + b'\x4c' + bytes([l]) + us[skip + 1:]


k = Key(12345)
t = Transaction(network='bitcoin', witness_type='legacy')
t.add_input('aa' * 32, 0, keys=[k], witness_type='legacy')
t.add_output(10000, '1BvBMSEYstWetqTFn5Au4m4GFg7xJaNVN2')
t.sign(k)
raw = t.raw()
us = t.inputs[0].unlocking_script
raw2 = raw.replace(varstr(us), varstr(nonminimal(us, 0)))
for strict in (True, False):
    print('p2pkh    strict=%-5s round trip equal: %s' % (strict, Transaction.parse(raw2, strict=strict).raw() == raw2))

ks = [Key(i + 100) for i in range(3)]
t = Transaction(network='bitcoin', witness_type='legacy')
t.add_input('aa' * 32, 0, keys=[x.public_byte for x in ks], script_type='p2sh_multisig', sigs_required=2, sort=True, witness_type='legacy')
t.add_output(10000, '1BvBMSEYstWetqTFn5Au4m4GFg7xJaNVN2')
t.sign(ks[0])
t.sign(ks[1])
raw = t.raw()
us = t.inputs[0].unlocking_script
raw2 = raw.replace(varstr(us), varstr(nonminimal(us, 1)))
for strict in (True, False):
    print('multisig strict=%-5s round trip equal: %s' % (strict, Transaction.parse(raw2, strict=strict).raw() == raw2))
