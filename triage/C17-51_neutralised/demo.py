# Amounts placed in transaction outputs and fees are always non-negative integers of the smallest unit.
# A wallet transaction is built from explicitly chosen inputs (input_arr) without a fee argument, so the
# fee is derived as  sum(inputs) - sum(outputs).  Whenever a transaction is returned its fee must be a
# non-negative integer and equal to that difference; if the chosen inputs do not cover the outputs the
# only acceptable outcome is an error.  Expectations are computed here with plain integer arithmetic.
import os
import sys
import shutil
import tempfile

from bitcoinlib.wallets import Wallet, WalletError
from bitcoinlib.transactions import TransactionError

tmpdir = tempfile.mkdtemp(prefix='c17_demo11_')
db_uri = 'sqlite:///' + os.path.join(tmpdir, 'wallet.sqlite')
cache_uri = 'sqlite:///' + os.path.join(tmpdir, 'cache.sqlite')
errors = []

try:
    w = Wallet.create('c17_demo11', network='bitcoinlib_test', db_uri=db_uri, db_cache_uri=cache_uri)
    w.utxos_update()
    utxos = w.utxos()
    assert len(utxos) >= 2, "bitcoinlib_test wallet should have unspent outputs"
    u = utxos[0]
    assert isinstance(u['value'], int) and u['value'] > 0
    input_arr = [(u['txid'], u['output_n'], u['key_id'], u['value'])]
    to_address = 'blt1qm89pcm4392vj93q9s2ft8saqzm4paruzj95a83'

    def build(amounts, how):
        outputs = [(to_address, a) for a in amounts]
        if how == 'transaction_create':
            return w.transaction_create(outputs, input_arr=input_arr)
        return w.send(outputs, input_arr=input_arr, broadcast=False)

    cases = [
        ("inputs cover the outputs", [u['value'] - 40000]),
        ("inputs cover two outputs", [u['value'] // 2, u['value'] // 2 - 25000]),
        ("outputs exceed the inputs by half", [u['value'] + u['value'] // 2]),
        ("outputs exceed the inputs by 1 satoshi", [u['value'] + 1]),
        ("string amounts exceeding the inputs", ['0.75 TST', '0.75 TST']),
    ]
    for how in ('transaction_create', 'send'):
        for title, amounts in cases:
            out_total = sum(a if isinstance(a, int) else 75000000 for a in amounts)
            expected_fee = u['value'] - out_total
            try:
                t = build(amounts, how)
            except (WalletError, TransactionError) as e:
                if expected_fee >= 0:
                    errors.append("%s, %s: unexpected error %s" % (how, title, e))
                continue
            vals = [o.value for o in t.outputs]
            if expected_fee < 0:
                errors.append("%s, %s: inputs %d, outputs %d -> a transaction with fee %r was returned instead of "
                              "an error" % (how, title, u['value'], sum(vals), t.fee))
                continue
            if not (isinstance(t.fee, int) and t.fee >= 0 and t.fee == expected_fee):
                errors.append("%s, %s: fee %r, expected %d" % (how, title, t.fee, expected_fee))
            if not all(isinstance(v, int) and v >= 0 for v in vals) or sum(vals) != out_total:
                errors.append("%s, %s: output values %r, expected total %d" % (how, title, vals, out_total))
finally:
    shutil.rmtree(tmpdir, ignore_errors=True)

if errors:
    print("FAIL: a wallet transaction carries a fee that is not a non-negative integer of the smallest unit")
    for e in errors[:10]:
        print("  " + e)
    sys.exit(1)
print("PASS")
sys.exit(0)
