import os
import sys
import hashlib
import itertools

sys.path.insert(0, os.getcwd())

from bitcoinlib.wallets import Wallet
from bitcoinlib.keys import HDKey

NET = 'bitcoinlib_test'
DATA_DIR = os.environ.get('BCL_DATA_DIR') or '/tmp'
FAILURES = []


def fresh_db(name):
    path = os.path.join(DATA_DIR, name)
    for p in (path, path + '-journal'):
        if os.path.exists(p):
            os.remove(p)
    return 'sqlite:///' + path


def fail(msg):
    FAILURES.append(msg)


def finish():
    if FAILURES:
        print('FAIL')
        for m in FAILURES[:12]:
            print(' -', m)
        if len(FAILURES) > 12:
            print(' - ... %d more' % (len(FAILURES) - 12))
        sys.exit(1)
    print('PASS')
    sys.exit(0)


# ---------------------------------------------------------------------------
# Independent consensus-style checker: own secp256k1 ECDSA, own raw transaction
# parser, own legacy / BIP143 signature hash and own OP_CHECKMULTISIG emulation.
# Nothing below uses bitcoinlib.
# ---------------------------------------------------------------------------
P = 0xFFFFFFFFFFFFFFFFFFFFFFFFFFFFFFFFFFFFFFFFFFFFFFFFFFFFFFFEFFFFFC2F
N = 0xFFFFFFFFFFFFFFFFFFFFFFFFFFFFFFFEBAAEDCE6AF48A03BBFD25E8CD0364141
G = (0x79BE667EF9DCBBAC55A06295CE870B07029BFCDB2DCE28D959F2815B16F81798,
     0x483ADA7726A3C4655DA4FBFC0E1108A8FD17B448A68554199C47D08FFB10D4B8)


def _add(a, b):
    if a is None:
        return b
    if b is None:
        return a
    if a[0] == b[0] and (a[1] + b[1]) % P == 0:
        return None
    if a == b:
        lam = 3 * a[0] * a[0] * pow(2 * a[1], -1, P) % P
    else:
        lam = (b[1] - a[1]) * pow(b[0] - a[0], -1, P) % P
    x = (lam * lam - a[0] - b[0]) % P
    return x, (lam * (a[0] - x) - a[1]) % P


def _mul(k, pt):
    r = None
    while k:
        if k & 1:
            r = _add(r, pt)
        pt = _add(pt, pt)
        k >>= 1
    return r


def _point(pub):
    x = int.from_bytes(pub[1:33], 'big')
    y = pow((x * x * x + 7) % P, (P + 1) // 4, P)
    if (y & 1) != (pub[0] & 1):
        y = P - y
    return x, y


def _der(sig):
    assert sig[0] == 0x30 and sig[2] == 0x02
    lr = sig[3]
    r = int.from_bytes(sig[4:4 + lr], 'big')
    assert sig[4 + lr] == 0x02
    ls = sig[5 + lr]
    s = int.from_bytes(sig[6 + lr:6 + lr + ls], 'big')
    return r, s


def ecdsa_ok(z, sig_with_type, pub):
    try:
        r, s = _der(sig_with_type[:-1])
    except Exception:
        return False
    if not (0 < r < N and 0 < s < N):
        return False
    w = pow(s, -1, N)
    pt = _add(_mul(z * w % N, G), _mul(r * w % N, _point(pub)))
    return pt is not None and pt[0] % N == r


def dsha(b):
    return hashlib.sha256(hashlib.sha256(b).digest()).digest()


def h160(b):
    return hashlib.new('ripemd160', hashlib.sha256(b).digest()).digest()


def _vi(b, p):
    n = b[p]
    if n < 0xfd:
        return n, p + 1
    if n == 0xfd:
        return int.from_bytes(b[p + 1:p + 3], 'little'), p + 3
    if n == 0xfe:
        return int.from_bytes(b[p + 1:p + 5], 'little'), p + 5
    return int.from_bytes(b[p + 1:p + 9], 'little'), p + 9


def _ser_vi(n):
    if n < 0xfd:
        return bytes([n])
    if n <= 0xffff:
        return b'\xfd' + n.to_bytes(2, 'little')
    return b'\xfe' + n.to_bytes(4, 'little')


def parse_tx(raw):
    p = 4
    version = raw[0:4]
    segwit = raw[4] == 0 and raw[5] == 1
    if segwit:
        p = 6
    n_in, p = _vi(raw, p)
    ins = []
    for _ in range(n_in):
        outpoint = raw[p:p + 36]
        p += 36
        ln, p = _vi(raw, p)
        script = raw[p:p + ln]
        p += ln
        seq = raw[p:p + 4]
        p += 4
        ins.append({'outpoint': outpoint, 'script': script, 'seq': seq, 'witness': []})
    n_out, p = _vi(raw, p)
    outs = []
    for _ in range(n_out):
        val = raw[p:p + 8]
        p += 8
        ln, p = _vi(raw, p)
        outs.append(val + _ser_vi(ln) + raw[p:p + ln])
        p += ln
    if segwit:
        for i in ins:
            cnt, p = _vi(raw, p)
            for _ in range(cnt):
                ln, p = _vi(raw, p)
                i['witness'].append(raw[p:p + ln])
                p += ln
    locktime = raw[p:p + 4]
    assert p + 4 == len(raw), 'trailing bytes in raw transaction'
    return {'version': version, 'ins': ins, 'outs': outs, 'locktime': locktime}


def pushes(script):
    items, p = [], 0
    while p < len(script):
        op = script[p]
        p += 1
        if op == 0:
            items.append(b'')
        elif op <= 75:
            items.append(script[p:p + op])
            p += op
        elif op == 76:
            ln = script[p]
            items.append(script[p + 1:p + 1 + ln])
            p += 1 + ln
        elif op == 77:
            ln = int.from_bytes(script[p:p + 2], 'little')
            items.append(script[p + 2:p + 2 + ln])
            p += 2 + ln
        else:
            raise ValueError('non-push opcode %d in input script' % op)
    return items


def sighash_legacy(tx, idx, script_code):
    b = tx['version'] + _ser_vi(len(tx['ins']))
    for n, i in enumerate(tx['ins']):
        sc = script_code if n == idx else b''
        b += i['outpoint'] + _ser_vi(len(sc)) + sc + i['seq']
    b += _ser_vi(len(tx['outs'])) + b''.join(tx['outs']) + tx['locktime'] + (1).to_bytes(4, 'little')
    return int.from_bytes(dsha(b), 'big')


def sighash_bip143(tx, idx, script_code, value):
    i = tx['ins'][idx]
    b = tx['version'] + dsha(b''.join(x['outpoint'] for x in tx['ins'])) + \
        dsha(b''.join(x['seq'] for x in tx['ins'])) + i['outpoint'] + _ser_vi(len(script_code)) + script_code + \
        value.to_bytes(8, 'little') + i['seq'] + dsha(b''.join(tx['outs'])) + tx['locktime'] + \
        (1).to_bytes(4, 'little')
    return int.from_bytes(dsha(b), 'big')


def multisig_script(m, pubkeys):
    """BIP67: m <sorted compressed pubkeys> n OP_CHECKMULTISIG"""
    s = bytes([80 + m])
    for pk in sorted(pubkeys):
        s += bytes([len(pk)]) + pk
    return s + bytes([80 + len(pubkeys), 0xae])


def spend_is_valid(raw, idx, wt, expected_redeem, value):
    """Return (ok, reason) for multisig input idx of the raw transaction, judged by consensus rules"""
    try:
        tx = parse_tx(raw)
        inp = tx['ins'][idx]
        if wt == 'legacy':
            stack = pushes(inp['script'])
            if inp['witness']:
                return False, 'unexpected witness'
        else:
            stack = list(inp['witness'])
            if wt == 'segwit' and inp['script']:
                return False, 'scriptSig must be empty for p2wsh'
            if wt == 'p2sh-segwit':
                if pushes(inp['script']) != [b'\x00\x20' + hashlib.sha256(expected_redeem).digest()]:
                    return False, 'scriptSig is not the push of the p2wsh program of the redeem script'
        if len(stack) < 2:
            return False, 'no signatures / redeem script in input'
        redeem = stack[-1]
        if redeem != expected_redeem:
            return False, 'redeem script differs from the BIP67 m-of-n script of the cosigner keys'
        m = redeem[0] - 80
        keys = pushes(redeem[1:-2])
        sigs = stack[1:-1]
        if stack[0] != b'':
            return False, 'CHECKMULTISIG dummy element is not empty (too many signatures pushed?)'
        if len(sigs) != m:
            return False, 'script carries %d signatures but CHECKMULTISIG consumes exactly %d' % (len(sigs), m)
        if wt == 'legacy':
            z = sighash_legacy(tx, idx, redeem)
        else:
            z = sighash_bip143(tx, idx, redeem, value)
        isig = ikey = 0
        while isig < len(sigs):
            if ikey >= len(keys):
                return False, 'signature %d does not match any remaining key (wrong order or wrong message)' % isig
            if sigs[isig][-1:] == b'\x01' and ecdsa_ok(z, sigs[isig], keys[ikey]):
                isig += 1
            ikey += 1
        return True, ''
    except Exception as e:
        return False, 'malformed transaction: %r' % e


# ---------------------------------------------------------------------------
# Scenario helpers (these do use the library under test)
# ---------------------------------------------------------------------------
def make_keys(n, wt, tag):
    return [HDKey.from_seed(hashlib.sha256(('%s/%s/%d' % (tag, wt, i)).encode()).digest(),
                            network=NET, witness_type=wt) for i in range(n)]


def make_wallets(keys, m, wt, prefix, db, orders=None):
    """One wallet per cosigner: own master private key + account public keys of the others"""
    ws = []
    n = len(keys)
    for h in range(n):
        kl = [keys[i] if i == h else keys[i].public_master(multisig=True, witness_type=wt) for i in range(n)]
        if orders:
            kl = [kl[i] for i in orders[h]]
        ws.append(Wallet.create('%s-%d' % (prefix, h), kl, sigs_required=m, network=NET, witness_type=wt,
                                db_uri=db))
    return ws


def child_pubkeys(keys, wt, cosigner, change, index):
    if wt == 'legacy':
        path = "m/45'/%d/%d/%d" % (cosigner, change, index)
    else:
        path = "m/48'/9999999'/0'/%d'/%d/%d" % (1 if wt == 'p2sh-segwit' else 2, change, index)
    return [k.subkey_for_path(path).public_byte for k in keys]


# ---------------------------------------------------------------------------
# Scenario: 2-of-3 cosigner wallets of each type. Every wallet knows the funding UTXO together with
# its locking script (scriptPubKey), the way real service providers and utxo_add(script=...) deliver
# it. Cosigner 0 creates and signs the spend, cosigner 1 receives it (object / dictionary), signs and
# broadcasts, cosigner 2 gets the complete raw transaction for a re-broadcast. The serialisation each
# wallet would broadcast is judged by the independent consensus checker above.
# ---------------------------------------------------------------------------
def script_pubkey(wt, redeem):
    if wt == 'legacy':
        return b'\xa9\x14' + h160(redeem) + b'\x87'
    program = b'\x00\x20' + hashlib.sha256(redeem).digest()
    if wt == 'segwit':
        return program
    return b'\xa9\x14' + h160(program) + b'\x87'


VALUE = 100000000
for wt in ('legacy', 'segwit', 'p2sh-segwit'):
    keys = make_keys(3, wt, 'demo40')
    redeem = multisig_script(2, child_pubkeys(keys, wt, 0, 0, 0))
    spk = script_pubkey(wt, redeem)
    funding_txid = hashlib.sha256(('funding/' + wt).encode()).hexdigest()
    payee = HDKey.from_seed(hashlib.sha256(b'demo40/payee').digest(), network=NET, witness_type=wt).address()

    for route in ('object', 'dict'):
        db = fresh_db('c10_demo40_%s_%s.db' % (wt, route))
        ws = make_wallets(keys, 2, wt, 'd40-%s-%s' % (wt, route), db)
        addresses = []
        for w in ws:
            wk = w.key_for_path([0, 0], cosigner_id=0 if wt == 'legacy' else None)
            addresses.append(wk.address)
            w.utxo_add(wk.address, VALUE, funding_txid, 0, confirmations=10, script=spk.hex())
        if len(set(addresses)) != 1:
            fail('%s: cosigner wallets disagree on the address of path 0/0: %s' % (wt, addresses))
            continue

        t = ws[0].transaction_create([(payee, 60000000)], fee=20000)
        t.sign()
        if t.verify():
            fail('%s/%s: spend verifies with 1 of 2 signatures' % (wt, route))
        t2 = ws[1].transaction_import(t if route == 'object' else t.as_dict())
        t2.sign()
        nsig = [len(i.signatures) for i in t2.inputs]
        if not t2.verify():
            fail('%s/%s: two distinct cosigners signed %s but the spend does not verify' % (wt, route, nsig))
            continue
        ok, why = spend_is_valid(t2.raw(), 0, wt, redeem, VALUE)
        # relay of the complete transaction as raw hex to the third cosigner wallet
        try:
            t3 = ws[2].transaction_import_raw(t2.raw_hex())
            if not t3.verify():
                fail('%s/%s: complete spend no longer verifies after raw import in cosigner wallet 2' % (wt, route))
            ok3, why3 = spend_is_valid(t3.raw(), 0, wt, redeem, VALUE)
            if ok and not ok3:
                fail('%s/%s: cosigner wallet 2 imported a valid complete spend as raw hex, verifies it (%s) but '
                     'serialises it as a transaction that is NOT consensus-valid: %s' % (wt, route, t3.verify(), why3))
        except Exception as e:
            fail('%s/%s: raw import of the complete spend raised %r' % (wt, route, e))
        t2.send()
        if not t2.pushed:
            fail('%s/%s: complete spend was not broadcast: %s' % (wt, route, t2.error))
        if not ok:
            fail('%s/%s: wallet of cosigner 1 verified and broadcast (pushed=%s) a spend signed by 2 cosigners '
                 'that is NOT consensus-valid: %s' % (wt, route, t2.pushed, why))

finish()
