"""D63 witness (documentation only): before fix d4a7a49 a P2SH-P2WPKH input that is given the scriptPubKey it spends pushed the wrapper
hash.   Run:  cd /repo && /venv/bin/python /verif/triage/d63_nested_locking_script.py   (prints True True on the repaired tree)"""
from bitcoinlib.transactions import Input
from bitcoinlib.keys import Key
from bitcoinlib.encoding import hash160, varstr

k = Key(12345)
prog = b'\x00\x14' + k.hash160
spk = b'\xa9\x14' + hash160(prog) + b'\x87'
i = Input('aa' * 32, 0, keys=[k], script_type='p2sh_p2wpkh', witness_type='p2sh-segwit', locking_script=spk, value=1000)
print(i.unlocking_script == varstr(prog), i.public_hash == k.hash160)
